(* Boundedness of the bandit estimates (C19, round 5): with a step in [0,1] every learn() moves the estimate to a
   convex combination of the old estimate and the reward, so after ANY sequence of learn calls every estimate lies
   between the smallest and the largest of (initial estimates, rewards received).  The sample-average step 1/count
   is always in (0,1]; a constant alpha is in [0,1] by hypothesis (alpha outside [0,1] genuinely overshoots). *)
From Coq Require Import List ZArith QArith Qabs Qfield Bool Arith Lia Lqa.
From BlackIt Require Import Model.Bandit Proofs.BanditP.
Import ListNotations.
Open Scope Q_scope.

Definition alpha_ok (alpha : Q) : Prop := alpha == -1 # 1 \/ (0 <= alpha /\ alpha <= 1).
Definition within (lo hi x : Q) : Prop := lo <= x /\ x <= hi.

Lemma inv_qn_S_unit c : 0 < 1 / qn (S c) /\ 1 / qn (S c) <= 1.
Proof.
  assert (P : 0 < qn (S c)) by (apply qn_pos; lia).
  assert (G : 1 <= qn (S c)).
  { rewrite qn_S. pose proof (qn_nonneg c). lra. }
  split.
  - apply Qlt_shift_div_l; [exact P | lra].
  - apply Qle_shift_div_r; [exact P | lra].
Qed.

Lemma step_of_unit alpha c : alpha_ok alpha -> 0 <= step_of alpha c /\ step_of alpha c <= 1.
Proof.
  intros [E | [L U]].
  - rewrite (step_of_sample_average alpha c E). destruct (inv_qn_S_unit c) as [A B]. split; [apply Qlt_le_weak|]; assumption.
  - unfold step_of. destruct (Qeq_bool alpha (-1 # 1)) eqn:T.
    + destruct (inv_qn_S_unit c) as [A B]. split; [apply Qlt_le_weak|]; assumption.
    + split; assumption.
Qed.

Lemma convex_within lo hi q r st : within lo hi q -> within lo hi r -> 0 <= st -> st <= 1 ->
  within lo hi (q + st * (r - q)).
Proof.
  unfold within. intros [Q1 Q2] [R1 R2] S0 S1.
  assert (E : q + st * (r - q) == (1 - st) * q + st * r) by ring.
  rewrite E. split.
  - assert (H1 : (1 - st) * lo <= (1 - st) * q) by (rewrite !(Qmult_comm (1 - st)); apply Qmult_le_compat_r; lra).
    assert (H2 : st * lo <= st * r) by (rewrite !(Qmult_comm st); apply Qmult_le_compat_r; lra).
    assert (E2 : lo == (1 - st) * lo + st * lo) by ring. lra.
  - assert (H1 : (1 - st) * q <= (1 - st) * hi) by (rewrite !(Qmult_comm (1 - st)); apply Qmult_le_compat_r; lra).
    assert (H2 : st * r <= st * hi) by (rewrite !(Qmult_comm st); apply Qmult_le_compat_r; lra).
    assert (E2 : hi == (1 - st) * hi + st * hi) by ring. lra.
Qed.

Lemma Forall_upd {A} (P : A -> Prop) (f : A -> A) l : forall i,
  Forall P l -> (forall x, P x -> P (f x)) -> Forall P (upd i f l).
Proof.
  induction l as [|x t IH]; intros [|i] H Hf; cbn; auto; inversion H; subst; constructor; auto.
Qed.

(* one learn keeps every estimate inside [lo, hi] *)
Lemma learn_within lo hi alpha s a r : alpha_ok alpha -> within lo hi r ->
  Forall (within lo hi) (qs s) -> Forall (within lo hi) (qs (learn alpha s a r)).
Proof.
  intros A R F. cbn [learn qs].
  apply Forall_upd; [exact F|]. intros q Hq.
  assert (S : 0 <= step_size alpha (upd a S (cnts s)) a /\ step_size alpha (upd a S (cnts s)) a <= 1).
  { unfold step_size. destruct (Qeq_bool alpha (-1 # 1)) eqn:T.
    - destruct (Nat.lt_ge_cases a (length (cnts s))) as [L | G].
      + rewrite upd_nth_same by exact L. destruct (inv_qn_S_unit (nth a (cnts s) 0%nat)) as [X Y].
        split; [apply Qlt_le_weak|]; assumption.
      + rewrite upd_out_of_range by exact G. rewrite nth_overflow by exact G.
        (* a count that does not exist: Python raises before using it (learn_res); the totalised 1/0 is 0 in Q *)
        unfold qn. cbn. split; [apply Qle_refl | discriminate].
    - destruct A as [E | [L U]]; [apply Qeq_bool_iff in E; congruence | split; assumption]. }
  destruct S as [S0 S1].
  pose proof (convex_within lo hi q r _ Hq R S0 S1) as [W1 W2].
  unfold within. rewrite Qred_correct. split; assumption.
Qed.

(* any sequence of learn calls, every call with the learning rate then in force *)
Lemma run_learn_v_within lo hi tr : forall s,
  Forall (fun x => alpha_ok (fst x) /\ within lo hi (snd (snd x))) tr ->
  Forall (within lo hi) (qs s) -> Forall (within lo hi) (qs (run_learn_v s tr)).
Proof.
  induction tr as [|[al [a r]] t IH]; intros s H F.
  - exact F.
  - rewrite run_learn_v_cons. inversion H as [|x l [HA HR] HT]; subst. cbn [fst snd] in HA, HR.
    apply IH; [exact HT|]. apply learn_within; assumption.
Qed.

Lemma run_learn_within lo hi alpha tr s : alpha_ok alpha ->
  Forall (fun ar => within lo hi (snd ar)) tr ->
  Forall (within lo hi) (qs s) -> Forall (within lo hi) (qs (run_learn alpha s tr)).
Proof.
  intros A H F. rewrite <- run_learn_v_const. apply run_learn_v_within; [|exact F].
  apply Forall_map. cbn [fst snd]. eapply Forall_impl; [|exact H]. intros x Hx. split; assumption.
Qed.

Lemma Forall_repeat {A} (P : A -> Prop) x n : P x -> Forall P (repeat x n).
Proof. intros H. induction n; cbn; constructor; auto. Qed.

(* from the constructor: estimates stay between min(initial value, rewards) and max(initial value, rewards) *)
Lemma estimates_within_from_init lo hi alpha n v tr : alpha_ok alpha -> within lo hi v ->
  Forall (fun ar => within lo hi (snd ar)) tr ->
  Forall (within lo hi) (qs (run_learn alpha (init_agent n v) tr)).
Proof. intros A V H. apply run_learn_within; auto. cbn [init_agent qs]. apply Forall_repeat. exact V. Qed.

(* the rewards the bandit environment produces for non-negative losses are in [0,1]: the hypothesis above is met by
   the real reward stream with lo = 0, hi = 1 *)
Lemma env_rewards_in_unit ls : forall c0, 0 <= c0 -> Forall (fun x => 0 <= x) ls ->
  Forall (fun o => match o with Ok r => within 0 1 r | Raise _ => True end) (fst (env_run (Some c0) ls)).
Proof.
  induction ls as [|x t IH]; intros c0 C H.
  - cbn. constructor.
  - inversion H as [|y l Hx Ht]; subst. rewrite env_run_cons.
    destruct (reward_rule c0 x) as (R1 & R2 & R3 & _).
    destruct (Qlt_le_dec x c0) as [LT | GE].
    + destruct (Qeq_dec c0 0) as [Z | NZ].
      * rewrite (R3 LT Z). cbn [fst snd]. constructor; [exact I | apply IH; assumption].
      * rewrite (R1 LT NZ). cbn [fst snd]. constructor; [|apply IH; assumption].
        destruct (reward_in_unit_interval c0 x Hx LT) as [P Q]. split; [apply Qlt_le_weak|]; assumption.
    + assert (NL : ~ x < c0) by (apply Qle_not_lt; exact GE).
      rewrite (R2 NL). cbn [fst snd]. constructor; [|apply IH; assumption].
      split; [apply Qle_refl | discriminate].
Qed.

(* alpha outside [0,1] (other than the sentinel) does overshoot: the hypothesis alpha_ok is needed *)
Lemma overshoot_witness : 1 < nth 0 (qs (run_learn (3 # 2) (init_agent 1 0) [(0%nat, 1 # 1)])) 0.
Proof. vm_compute. reflexivity. Qed.

(* ------------------------------------------------------------------ every update moves the estimate toward the reward *)
(* the error to the reward just received is multiplied by (1 - step) *)
Lemma learn_error alpha s a r : (a < length (qs s))%nat -> (a < length (cnts s))%nat ->
  nth a (qs (learn alpha s a r)) 0 - r == (1 - step_of alpha (nth a (cnts s) 0%nat)) * (nth a (qs s) 0 - r).
Proof. intros H1 H2. destruct (learn_rule alpha s a r H1 H2) as [_ E]. rewrite E. ring. Qed.

(* ... hence, for an admissible rate, it never grows and never changes sign (no overshoot) *)
Lemma learn_no_overshoot alpha s a r : alpha_ok alpha -> (a < length (qs s))%nat -> (a < length (cnts s))%nat ->
  Qabs (nth a (qs (learn alpha s a r)) 0 - r) <= Qabs (nth a (qs s) 0 - r) /\
  0 <= (nth a (qs (learn alpha s a r)) 0 - r) * (nth a (qs s) 0 - r).
Proof.
  intros A H1 H2. rewrite (learn_error alpha s a r H1 H2).
  destruct (step_of_unit alpha (nth a (cnts s) 0%nat) A) as [S0 S1].
  set (st := step_of alpha (nth a (cnts s) 0%nat)) in *. set (e := nth a (qs s) 0 - r).
  assert (K0 : 0 <= 1 - st) by lra. assert (K1 : 1 - st <= 1) by lra.
  split.
  - rewrite Qabs_Qmult. rewrite (Qabs_pos (1 - st) K0).
    assert (P : 0 <= Qabs e) by apply Qabs_nonneg.
    assert (M : (1 - st) * Qabs e <= 1 * Qabs e) by (apply Qmult_le_compat_r; assumption).
    lra.
  - assert (E : (1 - st) * e * e == (1 - st) * (e * e)) by ring. rewrite E.
    apply Qmult_le_0_compat; [exact K0|].
    destruct (Qlt_le_dec e 0) as [N | P].
    + assert (E2 : e * e == (- e) * (- e)) by ring. rewrite E2. apply Qmult_le_0_compat; lra.
    + apply Qmult_le_0_compat; assumption.
Qed.

(* with the rate 1 (and with the first sample-average update) the estimate becomes the reward itself *)
Lemma learn_full_step alpha s a r : (a < length (qs s))%nat -> (a < length (cnts s))%nat ->
  step_of alpha (nth a (cnts s) 0%nat) == 1 -> nth a (qs (learn alpha s a r)) 0 == r.
Proof. intros H1 H2 S. pose proof (learn_error alpha s a r H1 H2) as E. rewrite S in E. lra. Qed.
