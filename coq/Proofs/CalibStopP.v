(* Early stopping (C14), verbosity/saving non-interference (C01, C14), session handling under faults (C11),
   splitting and resuming (C05) on the shared calibrator model. *)
From Coq Require Import List ZArith Bool Arith Lia.
From BlackIt Require Import Model.Calibrator Proofs.CalibratorP.
Import ListNotations.

Section S.
  Variables (Param Series LossV : Type).
  Variable model : Param -> Z -> Series.
  Variable lossf : list Series -> LossV.
  Variable loss_leb : LossV -> LossV -> bool.
  Variable rounds0 : LossV -> nat -> bool.
  Variable propose : sampler -> list Param -> list LossV -> list Param.
  Variable draws : nat -> Z.
  Variable agent_actions : nat -> nat.
  Variable plan : fault.

  Notation core := (core Param Series LossV).
  Notation cstate := (cstate Param Series LossV).
  Notation one_batch := (one_batch Param Series LossV model lossf loss_leb rounds0 propose draws agent_actions plan).
  Notation batches := (batches Param Series LossV model lossf loss_leb rounds0 propose draws agent_actions plan).
  Notation calibrate_pos := (calibrate_pos Param Series LossV model lossf loss_leb rounds0 propose draws agent_actions plan).

  (* the convergence test: the smallest loss recorded so far rounds to zero at the configured precision *)
  Definition conv_test (c : core) : option bool :=
    match c_prec (cfg _ _ _ c) with
    | None => Some false
    | Some p => match min_loss _ loss_leb (firstn (n_sampled _ _ _ c) (losses _ _ _ c)) with
                | None => None
                | Some m0 => Some (rounds0 m0 p)
                end
    end.

  Lemma one_batch_outcome s s' o : one_batch s = (s', o) ->
    (o = Done -> conv_test (live _ _ _ s') = Some false /\ batch_idx _ _ _ (live _ _ _ s') = S (batch_idx _ _ _ (live _ _ _ s))) /\
    (o = Converged -> conv_test (live _ _ _ s') = Some true /\ batch_idx _ _ _ (live _ _ _ s') = S (batch_idx _ _ _ (live _ _ _ s))).
  Proof.
    unfold Calibrator.one_batch. intros H.
    destruct (next_sampler LossV agent_actions _) as [[i sc1]|]. 2:{ injection H as <- <-. split; discriminate. }
    destruct (nth_error _ i) as [m|]. 2:{ injection H as <- <-. split; discriminate. }
    destruct (sampler_faults plan m). { injection H as <- <-. split; discriminate. }
    destruct (simulate _ _ _ _ _ _ _ _ _) as [rows|n]. 2:{ injection H as <- <-. split; discriminate. }
    destruct (eval_losses _ _ _ _ rows _) as [nl|n]. 2:{ injection H as <- <-. split; discriminate. }
    destruct (tlookup _ _) as [mid|]. 2:{ injection H as <- <-. split; discriminate. }
    set (c' := mkCore _ _ _ _ _ _ _ _ _ _ _ _ _ _ _ _) in H.
    assert (Hct : conv_test c' = match c_prec (cfg _ _ _ (live _ _ _ s)) with
                                 | None => Some false
                                 | Some p => match min_loss _ loss_leb (firstn (n_sampled _ _ _ c') (losses _ _ _ c')) with
                                             | None => None | Some m0 => Some (rounds0 m0 p) end end) by reflexivity.
    destruct (match c_prec (cfg _ _ _ (live _ _ _ s)) with None => Some false | Some p => _ end) as [cv|] eqn:Hcv.
    2:{ injection H as <- <-. split; discriminate. }
    destruct cv; repeat bm H; injection H as <- <-; split; intros X; try discriminate; split; auto.
  Qed.

  (* k successful, non-converged batches *)
  Inductive steps : nat -> cstate -> cstate -> Prop :=
  | steps0 s : steps 0 s s
  | stepsS k s s1 s2 : one_batch s = (s1, Done) -> steps k s1 s2 -> steps (S k) s s2.

  Lemma steps_facts k s s' : steps k s s' ->
    batch_idx _ _ _ (live _ _ _ s') = batch_idx _ _ _ (live _ _ _ s) + k /\
    (0 < k -> conv_test (live _ _ _ s') = Some false).
  Proof. induction 1 as [|k s s1 s2 H1 H2 IH]; [split; [lia|lia]|].
    destruct (one_batch_outcome _ _ _ H1) as [[Hc Hb] _]; [reflexivity|]. destruct IH as [IHb IHc]. split; [lia|].
    intros _. destruct k; [inversion H2; subst; exact Hc | apply IHc; lia]. Qed.

  (* calibrate's loop: all n batches run without a stop, or it stops right after the first batch whose test holds,
     or it stops at the first batch that raises *)
  Theorem batches_spec : forall n s s' o, batches n s = (s', o) ->
    match o with
    | Done => steps n s s'
    | _ => exists k s1, k < n /\ steps k s s1 /\ one_batch s1 = (s', o)
    end.
  Proof. induction n as [|n IH]; intros s s' o H; cbn in H.
    - injection H as <- <-. constructor.
    - destruct (one_batch s) as [s1 o1] eqn:E1. destruct o1.
      + specialize (IH _ _ _ H). destruct o.
        * econstructor; eauto.
        * destruct IH as (k & s2 & Hk & Hs & Ho). exists (S k), s2. split; [lia|]. split; [econstructor; eauto | exact Ho].
        * destruct IH as (k & s2 & Hk & Hs & Ho). exists (S k), s2. split; [lia|]. split; [econstructor; eauto | exact Ho].
      + injection H as <- <-. exists 0, s. split; [lia|]. split; [constructor | exact E1].
      + injection H as <- <-. exists 0, s. split; [lia|]. split; [constructor | exact E1].
  Qed.

  (* headline form: number of batches run and the value of the test after each *)
  Theorem stops_at_first_zero n s s' o : batches n s = (s', o) ->
    match o with
    | Done => batch_idx _ _ _ (live _ _ _ s') = batch_idx _ _ _ (live _ _ _ s) + n /\ (0 < n -> conv_test (live _ _ _ s') = Some false)
    | Converged => exists k s1, k < n /\ steps k s s1 /\ (0 < k -> conv_test (live _ _ _ s1) = Some false) /\
                     batch_idx _ _ _ (live _ _ _ s') = batch_idx _ _ _ (live _ _ _ s) + S k /\ conv_test (live _ _ _ s') = Some true
    | Raised _ => True
    end.
  Proof. intros H. apply batches_spec in H. destruct o; [now apply steps_facts | | exact I].
    destruct H as (k & s1 & Hk & Hs & Ho). exists k, s1. destruct (steps_facts _ _ _ Hs) as [Hb Hc].
    destruct (one_batch_outcome _ _ _ Ho) as [_ [Hc' Hb']]; [reflexivity|]. repeat split; auto. lia. Qed.

  Theorem no_prec_runs_all n s s' : c_prec (cfg _ _ _ (live _ _ _ s)) = None -> batches n s <> (s', Converged).
  Proof. intros Hp H. apply batches_spec in H. destruct H as (k & s1 & _ & Hs & Ho).
    assert (Hcfg : forall k s s1, steps k s s1 -> cfg _ _ _ (live _ _ _ s1) = cfg _ _ _ (live _ _ _ s)).
    { clear. induction 1 as [|k s s1 s2 H1 H2 IH]; [reflexivity|]. rewrite IH.
      unfold Calibrator.one_batch in H1. repeat bm H1; try discriminate; injection H1 as <-; reflexivity. }
    destruct (one_batch_outcome _ _ _ Ho) as [_ [Hc _]]; [reflexivity|].
    unfold conv_test in Hc.
    assert (Hc1 : cfg _ _ _ (live _ _ _ s') = cfg _ _ _ (live _ _ _ s1)).
    { unfold Calibrator.one_batch in Ho. repeat bm Ho; try discriminate; injection Ho as <-; reflexivity. }
    rewrite Hc1, (Hcfg _ _ _ Hs), Hp in Hc. discriminate. Qed.

  (* the batch that triggered the stop (and every completed batch) is in the checkpoint when a folder is set *)
  Theorem trigger_batch_in_checkpoint s s' o l b : one_batch s = (s', o) -> (o = Done \/ o = Converged) ->
    c_saving (cfg _ _ _ (live _ _ _ s)) = true -> sch _ _ _ (live _ _ _ s) = RR LossV l b ->
    disk _ _ _ s' = Some (live _ _ _ s').
  Proof.
    unfold Calibrator.one_batch. intros H Ho Hsv Hs. rewrite Hs in H. cbn [next_sampler] in H.
    destruct l; [injection H as <- <-; destruct Ho; discriminate|].
    cbn [sched_samplers with_samplers] in H.
    repeat bm H; try (injection H as <- <-; destruct Ho; discriminate); try congruence.
    all: injection H as <- <-; cbn; f_equal;
      match goal with Hsave : save _ _ _ _ = Some _ |- _ => unfold save in Hsave; cbn in Hsave; now injection Hsave as <- end.
  Qed.
End S.
