(* Non-interference of verbosity and of the saving folder (C01, C14), session handling (C11), splitting (C05). *)
From Coq Require Import List ZArith Bool Arith Lia.
From BlackIt Require Import Model.Calibrator Proofs.CalibratorP Proofs.CalibStopP.
Import ListNotations.

Section F.
  Variables (Param Series LossV : Type).
  Variable model : Param -> Z -> Series.
  Variable lossf : list Series -> LossV.
  Variable loss_leb : LossV -> LossV -> bool.
  Variable rounds0 : LossV -> nat -> bool.
  Variable propose : sampler -> list Param -> list LossV -> list Param.
  Variable draws : nat -> Z.
  Variable agent_actions : nat -> nat.
  Variable plan : fault.

  Notation core := (core Param Series LossV).
  Notation cstate := (cstate Param Series LossV).
  Notation one_batch := (one_batch Param Series LossV model lossf loss_leb rounds0 propose draws agent_actions plan).
  Notation batches := (batches Param Series LossV model lossf loss_leb rounds0 propose draws agent_actions plan).
  Notation calibrate_pos := (calibrate_pos Param Series LossV model lossf loss_leb rounds0 propose draws agent_actions plan).

  (* same calibrator with other verbosity / saving flags *)
  Definition reflag (v sv : bool) (c : core) : core :=
    mkCore _ _ _ (mkCfg (c_E (cfg _ _ _ c)) (c_prec (cfg _ _ _ c)) v sv)
           (params _ _ _ c) (losses _ _ _ c) (series _ _ _ c) (batch_nums _ _ _ c) (methods _ _ _ c)
           (n_sampled _ _ _ c) (batch_idx _ _ _ c) (sch _ _ _ c) (rng_pos _ _ _ c) (tbl _ _ _ c)
           (model_calls _ _ _ c) (loss_calls _ _ _ c).

  Definition is_rr (c : core) : Prop := exists l b, sch _ _ _ c = RR LossV l b.

  (* one batch computes the same live state and outcome whatever the flags and whatever the folder holds
     (round-robin: the scheduler can always be pickled, so writing the checkpoint never fails) *)
  Lemma one_batch_reflag v sv c d d' s1 o1 : is_rr c ->
    one_batch (mkSt _ _ _ c d) = (s1, o1) ->
    exists d1', one_batch (mkSt _ _ _ (reflag v sv c) d') = (mkSt _ _ _ (reflag v sv (live _ _ _ s1)) d1', o1).
  Proof.
    intros (l & b & Hs) H.
    destruct c as [[E pr vb sg] ps ls se bn ms ns bi sc rp tb mc lc]. cbn in Hs. subst sc.
    unfold Calibrator.one_batch, reflag in *. cbn [live disk sch cfg params losses series batch_nums methods n_sampled
      batch_idx rng_pos tbl model_calls loss_calls c_E c_prec c_verbose c_saving next_sampler] in *.
    destruct l as [|x0 l0] eqn:El; [injection H as <- <-; eexists; reflexivity|]. rewrite <- El in *. clear El x0 l0.
    cbn [sched_samplers with_samplers] in *.
    destruct (nth_error l _) as [m|]; [|injection H as <- <-; eexists; reflexivity].
    destruct (sampler_faults plan m); [injection H as <- <-; eexists; reflexivity|].
    destruct (simulate _ _ _ _ _ _ _ _ _) as [rows|n]; [|injection H as <- <-; eexists; reflexivity].
    destruct (eval_losses _ _ _ _ rows _) as [nl|n]; [|injection H as <- <-; eexists; reflexivity].
    destruct (tlookup _ _) as [mid|]; [|injection H as <- <-; eexists; reflexivity].
    cbn [live disk sch cfg params losses series batch_nums methods n_sampled
      batch_idx rng_pos tbl model_calls loss_calls c_E c_prec c_verbose c_saving set_sch set_rng set_counts] in *.
    destruct pr as [p|].
    - destruct (min_loss _ _ _) as [m0|]; [|injection H as <- <-; eexists; reflexivity].
      unfold save in *. cbn [sch sched_update] in *.
      destruct sg, sv; injection H as <- <-; eexists; reflexivity.
    - unfold save in *. cbn [sch sched_update] in *.
      destruct sg, sv; injection H as <- <-; eexists; reflexivity.
  Qed.

  Lemma one_batch_rr_keeps_rr c d s1 o1 : is_rr c -> one_batch (mkSt _ _ _ c d) = (s1, o1) -> is_rr (live _ _ _ s1).
  Proof. intros (l & b & Hs) H. unfold Calibrator.one_batch in H. cbn [live disk] in H. rewrite Hs in H. cbn [next_sampler] in H.
    destruct l as [|x0 l0] eqn:El; [injection H as <- <-; exists [], b; exact Hs|]. rewrite <- El in *. clear El x0 l0.
    cbn [sched_samplers with_samplers] in H.
    repeat bm H; injection H as <- <-; cbn; try (eexists; eexists; reflexivity); try (exists l, b; exact Hs). Qed.

  Lemma batches_reflag v sv : forall n c d d' s1 o1, is_rr c ->
    batches n (mkSt _ _ _ c d) = (s1, o1) ->
    exists d1', batches n (mkSt _ _ _ (reflag v sv c) d') = (mkSt _ _ _ (reflag v sv (live _ _ _ s1)) d1', o1).
  Proof. induction n as [|n IH]; intros c d d' s1 o1 Hrr H; cbn in *.
    - injection H as <- <-. eexists; reflexivity.
    - destruct (one_batch (mkSt _ _ _ c d)) as [s2 o2] eqn:E.
      destruct (one_batch_reflag v sv c d d' _ _ Hrr E) as [d2' E'].
      cbn in E'. rewrite E'.
      pose proof (one_batch_rr_keeps_rr _ _ _ _ Hrr E) as Hrr2.
      destruct o2; try (injection H as <- <-; eexists; reflexivity).
      destruct s2 as [c2 d2]. cbn in *. eapply IH; eauto.
  Qed.

  Lemma seeds_reflag v sv c : set_samplers_seeds _ _ _ draws (reflag v sv c) = reflag v sv (set_samplers_seeds _ _ _ draws c).
  Proof. reflexivity. Qed.

  (* C01 / C14: for a round-robin line-up the history, the counters, the scheduler and generator state and the returned
     pairs of calibrate(n) do not depend on verbosity nor on whether a saving folder is set *)
  Theorem calibrate_pos_noninterference v sv n c d d' s1 e r : is_rr c ->
    calibrate_pos n (mkSt _ _ _ c d) = (s1, e, r) ->
    is_rr (live _ _ _ s1) /\
    exists d1', calibrate_pos n (mkSt _ _ _ (reflag v sv c) d') = (mkSt _ _ _ (reflag v sv (live _ _ _ s1)) d1', e, r).
  Proof.
    intros Hrr H. unfold Calibrator.calibrate_pos in *. cbn [live disk] in *.
    change (batch_idx _ _ _ (reflag v sv c)) with (batch_idx _ _ _ c).
    set (c1 := if Nat.eqb (batch_idx _ _ _ c) 0 then set_samplers_seeds _ _ _ draws c else c) in *.
    assert (Hc1 : (if Nat.eqb (batch_idx _ _ _ c) 0 then set_samplers_seeds _ _ _ draws (reflag v sv c) else reflag v sv c) = reflag v sv c1)
      by (unfold c1; destruct (Nat.eqb _ 0); reflexivity).
    rewrite Hc1. clear Hc1.
    assert (Hrr1 : is_rr c1).
    { unfold c1. destruct (Nat.eqb _ 0); [|exact Hrr]. destruct Hrr as (l & b & Hs). unfold set_samplers_seeds. rewrite Hs. cbn. eexists; eexists; reflexivity. }
    change (sch _ _ _ (reflag v sv c1)) with (sch _ _ _ c1).
    destruct Hrr1 as (l1 & b1 & Hs1). rewrite Hs1 in *. cbn [start_session] in *.
    destruct (batches n (mkSt _ _ _ (set_sch _ _ _ c1 (RR LossV l1 b1)) d)) as [s2 o2] eqn:Hb.
    assert (Hrr2 : is_rr (set_sch _ _ _ c1 (RR LossV l1 b1))) by (eexists; eexists; reflexivity).
    destruct (batches_reflag v sv n _ d d' _ _ Hrr2 Hb) as [d2' Hb'].
    change (set_sch _ _ _ (reflag v sv c1) (RR LossV l1 b1)) with (reflag v sv (set_sch _ _ _ c1 (RR LossV l1 b1))).
    rewrite Hb'. cbn [live disk].
    change (sch _ _ _ (reflag v sv (live _ _ _ s2))) with (sch _ _ _ (live _ _ _ s2)).
    assert (Hrr3 : is_rr (live _ _ _ s2)).
    { clear -Hb Hrr2. revert Hb Hrr2. generalize (set_sch _ _ _ c1 (RR LossV l1 b1)). generalize d. clear d.
      induction n as [|n IH]; intros d0 c0 Hb Hrr; cbn in Hb; [injection Hb as <- _; exact Hrr|].
      destruct (one_batch (mkSt _ _ _ c0 d0)) as [s3 o3] eqn:E. pose proof (one_batch_rr_keeps_rr _ _ _ _ Hrr E).
      destruct o3; try (injection Hb as <- _; assumption). destruct s3 as [c3 d3]. eapply IH; eauto. }
    destruct Hrr3 as (l3 & b3 & Hs3). rewrite Hs3 in *. cbn [end_session] in *.
    destruct o2; injection H as <- <- <-; (split; [eexists; eexists; reflexivity | eexists; reflexivity]).
  Qed.

  Notation calibrate := (calibrate Param Series LossV model lossf loss_leb rounds0 propose draws agent_actions plan).

  (* C01 / C14: for a round-robin line-up the history, the counters, the scheduler and generator state, the outcome and
     the returned pairs of calibrate(n) do not depend on verbosity, on whether a saving folder is set, nor on what it held *)
  Theorem calibrate_noninterference v sv n c d d' s1 e r : is_rr c ->
    calibrate n (mkSt _ _ _ c d) = (s1, e, r) ->
    exists d1', calibrate n (mkSt _ _ _ (reflag v sv c) d') = (mkSt _ _ _ (reflag v sv (live _ _ _ s1)) d1', e, r).
  Proof.
    intros Hrr H. rewrite (calibrate_unfold Param Series LossV) in *. destruct n as [|n].
    2:{ eapply calibrate_pos_noninterference; eauto. }
    destruct (calibrate_pos 0 (mkSt _ _ _ c d)) as [[s0 e0] r0] eqn:E.
    destruct (calibrate_pos_noninterference v sv 0 c d d' _ _ _ Hrr E) as [(l & b & Hs) [d0' E']]. rewrite E'.
    unfold zero_ckpt in *. destruct e0 as [x|].
    - injection H as <- <- <-. eexists; reflexivity.
    - cbn [live cfg reflag c_saving]. unfold save in *. cbn [sch reflag]. rewrite Hs in *.
      destruct (c_saving (cfg _ _ _ (live _ _ _ s0))); injection H as <- <- <-; destruct sv; eexists; reflexivity.
  Qed.
End F.
