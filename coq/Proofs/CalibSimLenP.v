(* Every recorded series has the configured simulation length, and every row has one series per ensemble member. *)
From Coq Require Import List ZArith Lia.
From BlackIt Require Import Model.Calibrator Model.SimLen Proofs.CalibratorP.
Import ListNotations.

Section SimLenP.
  Variables (Param Series LossV : Type).
  Variable modelN : Param -> nat -> Z -> Series.          (* model(theta, N, seed) *)
  Variable periods : Series -> nat.                       (* number of periods of a returned series *)
  Hypothesis model_periods : forall p n seed, periods (modelN p n seed) = n.
  Variable lossf : list Series -> LossV.
  Variable draws : nat -> Z.
  Variables (sim_length : option nat) (real_rows : nat).

  Definition row_shape_ok (E : nat) (row : list Series) : Prop :=
    length row = E /\ Forall (fun x => periods x = sim_len sim_length real_rows) row.

  Lemma rows_ok_shapes E ps sers ls :
    rows_ok Param Series LossV (model_at modelN sim_length real_rows) lossf draws E ps sers ls -> Forall (row_shape_ok E) sers.
  Proof.
    induction 1 as [|p ser l ps sers ls _ [pos ->] _ IH]; constructor; auto.
    split.
    - unfold member_series. now rewrite map_length, seq_length.
    - apply Forall_forall. intros x Hx. unfold member_series in Hx. apply in_map_iff in Hx.
      destruct Hx as (e & <- & _). unfold model_at. apply model_periods.
  Qed.

  Theorem series_have_configured_length :
    forall loss_leb rounds0 propose agent_actions plan,
    (forall s ps ls, length (propose s ps ls) = s_bsize s) ->
    forall cfg0 samplers scheduler s0 ops,
      construct Param Series LossV cfg0 samplers scheduler = inl s0 ->
      Forall (row_shape_ok (c_E cfg0))
        (series _ _ _ (live _ _ _
           (run Param Series LossV (model_at modelN sim_length real_rows) lossf loss_leb rounds0 propose draws agent_actions plan ops s0))).
  Proof.
    intros loss_leb rounds0 propose agent_actions plan Hlen cfg0 samplers scheduler s0 ops Hc.
    destruct (reachable_aligned Param Series LossV (model_at modelN sim_length real_rows) lossf loss_leb rounds0 propose draws
                agent_actions plan Hlen cfg0 samplers scheduler s0 ops Hc) as [Hl _].
    eapply rows_ok_shapes. exact (inv_rows _ _ _ _ _ _ _ _ Hl).
  Qed.
End SimLenP.
