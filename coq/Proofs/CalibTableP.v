(* The sampler id table: monotone, injective, covering (C18; also shows the KeyError branch of one_batch is unreachable). *)
From Coq Require Import List ZArith Bool Arith Lia.
From BlackIt Require Import Model.Calibrator Proofs.CalibratorP.
Import ListNotations.

Lemma tlookup_app_some c t x i : tlookup c t = Some i -> tlookup c (t ++ x) = Some i.
Proof. induction t as [|[c' j] t IH]; cbn; [discriminate|]. destruct (Nat.eqb c c'); auto. Qed.

Lemma tlookup_app_none c t c' i : tlookup c t = None ->
  tlookup c (t ++ [(c', i)]) = if Nat.eqb c c' then Some i else None.
Proof. induction t as [|[c'' j] t IH]; cbn; [reflexivity|]. destruct (Nat.eqb c c''); [discriminate|auto]. Qed.

Lemma tconstruct_from_mono l : forall next t c i, tlookup c t = Some i -> tlookup c (tconstruct_from next t l) = Some i.
Proof. induction l as [|s l IH]; intros next t c i H; cbn; [exact H|].
  destruct (tlookup (s_class s) t); apply IH; [exact H|]. now apply tlookup_app_some. Qed.

Lemma tconstruct_from_covers l : forall next t s, In s l -> tlookup (s_class s) (tconstruct_from next t l) <> None.
Proof. induction l as [|s0 l IH]; intros next t s Hin; [destruct Hin|]. cbn. destruct Hin as [->|Hin].
  - destruct (tlookup (s_class s) t) as [i|] eqn:E.
    + rewrite (tconstruct_from_mono l next t _ _ E). discriminate.
    + assert (H : tlookup (s_class s) (t ++ [(s_class s, next)]) = Some next)
        by (rewrite tlookup_app_none by exact E; now rewrite Nat.eqb_refl).
      rewrite (tconstruct_from_mono l _ _ _ _ H). discriminate.
  - destruct (tlookup (s_class s0) t); now apply IH. Qed.

Lemma NoDup_snoc {A} (l : list A) x : NoDup l -> ~ In x l -> NoDup (l ++ [x]).
Proof. induction 1 as [|y l Hy Hl IH]; cbn; intros Hx; [constructor; [intros []|constructor]|].
  constructor; [rewrite in_app_iff; cbn; intros [H|[H|[]]]; [contradiction | subst; apply Hx; now left] |].
  apply IH. intros H. apply Hx. now right. Qed.

Definition ids_below (n : nat) (t : table) : Prop := Forall (fun ci => snd ci < n) t.

Lemma tconstruct_from_inj l : forall next t, ids_below next t -> NoDup (map snd t) ->
  NoDup (map snd (tconstruct_from next t l)) /\ exists n', ids_below n' (tconstruct_from next t l).
Proof. induction l as [|s l IH]; intros next t Hb Hn; cbn; [split; [exact Hn | now exists next]|].
  destruct (tlookup (s_class s) t); [now apply IH|]. apply IH.
  - apply Forall_app. split; [eapply Forall_impl; [|exact Hb]; cbn; intros; lia | constructor; [cbn; lia|constructor]].
  - rewrite map_app. cbn. apply NoDup_snoc; [exact Hn|].
    intros Hin. apply in_map_iff in Hin. destruct Hin as [[c i] [Hi Hin]]. cbn in Hi. subst.
    unfold ids_below in Hb. rewrite Forall_forall in Hb. specialize (Hb _ Hin). cbn in Hb. lia.
Qed.

Lemma fold_max_bound (l : table) : Forall (fun ci => snd ci < S (fold_right (fun ci m => Nat.max (snd ci) m) 0 l)) l.
Proof. induction l as [|y l IH]; cbn [fold_right]; constructor; [lia|].
  eapply Forall_impl; [|exact IH]. cbn beta. intros a Ha. lia. Qed.
Lemma tmax_bound t m : tmax t = Some m -> ids_below (S m) t.
Proof. unfold tmax. destruct t as [|x t]; [discriminate|]. intros H. injection H as <-. exact (fold_max_bound (x :: t)). Qed.

Lemma tupdate_mono t l t' c i : tupdate t l = Some t' -> tlookup c t = Some i -> tlookup c t' = Some i.
Proof. unfold tupdate. destruct (tmax t); [|discriminate]. intros H; injection H as <-. apply tconstruct_from_mono. Qed.
Lemma tupdate_covers t l t' s : tupdate t l = Some t' -> In s l -> tlookup (s_class s) t' <> None.
Proof. unfold tupdate. destruct (tmax t); [|discriminate]. intros H; injection H as <-. apply tconstruct_from_covers. Qed.
Lemma tupdate_inj t l t' : tupdate t l = Some t' -> NoDup (map snd t) -> NoDup (map snd t').
Proof. unfold tupdate. destruct (tmax t) eqn:E; [|discriminate]. intros H; injection H as <-. intros Hn.
  apply tconstruct_from_inj; [now apply tmax_bound | exact Hn]. Qed.
Lemma tconstruct_inj l : NoDup (map snd (tconstruct l)).
Proof. apply tconstruct_from_inj; constructor. Qed.

(* injectivity in the usable form: one id, one class *)
Lemma tlookup_In c t i : tlookup c t = Some i -> In (c, i) t.
Proof. induction t as [|[c' j] t IH]; cbn; [discriminate|]. destruct (Nat.eqb_spec c c'); [|auto].
  intros H; injection H as <-. subst. now left. Qed.
Lemma table_id_identifies_class t c c' i : NoDup (map snd t) -> tlookup c t = Some i -> tlookup c' t = Some i -> c = c'.
Proof. intros Hn H1 H2. apply tlookup_In in H1, H2. induction t as [|[a j] t IH]; [destruct H1|].
  cbn in Hn. inversion Hn as [|? ? Hni Hn']; subst.
  destruct H1 as [H1|H1], H2 as [H2|H2]; try congruence.
  - injection H1 as -> ->. exfalso. apply Hni. apply in_map_iff. exists (c', i). auto.
  - injection H2 as -> ->. exfalso. apply Hni. apply in_map_iff. exists (c, i). auto.
  - now apply IH. Qed.

Section T.
  Variables (Param Series LossV : Type).
  Variable model : Param -> Z -> Series.
  Variable lossf : list Series -> LossV.
  Variable loss_leb : LossV -> LossV -> bool.
  Variable rounds0 : LossV -> nat -> bool.
  Variable propose : sampler -> list Param -> list LossV -> list Param.
  Variable draws : nat -> Z.
  Variable agent_actions : nat -> nat.
  Variable plan : fault.
  Hypothesis propose_len : forall s ps ls, length (propose s ps ls) = s_bsize s.

  Notation core := (core Param Series LossV).
  Notation cstate := (cstate Param Series LossV).
  Notation one_batch := (one_batch Param Series LossV model lossf loss_leb rounds0 propose draws agent_actions plan).
  Notation batches := (batches Param Series LossV model lossf loss_leb rounds0 propose draws agent_actions plan).
  Notation calibrate_pos := (calibrate_pos Param Series LossV model lossf loss_leb rounds0 propose draws agent_actions plan).
  Notation step := (step Param Series LossV model lossf loss_leb rounds0 propose draws agent_actions plan).
  Notation run := (run Param Series LossV model lossf loss_leb rounds0 propose draws agent_actions plan).

  Definition classes_of (c : core) : list nat := map s_class (sched_samplers _ (sch _ _ _ c)).
  Record TInv (c : core) : Prop := {
    t_ne : tbl _ _ _ c <> [];
    t_inj : NoDup (map snd (tbl _ _ _ c));
    t_cov : forall k, In k (classes_of c) -> tlookup k (tbl _ _ _ c) <> None
  }.
  Definition TInvS (s : cstate) : Prop := TInv (live _ _ _ s) /\ forall d, disk _ _ _ s = Some d -> TInv d.

  (* table and classes after one batch *)
  Lemma replace_uid_classes s' l : forall m, In m l -> s_class s' = s_class m ->
     forall k, In k (map s_class (replace_uid s' l)) -> In k (map s_class l).
  Proof. intros m Hm Hc k Hk. unfold replace_uid in Hk. rewrite map_map in Hk. apply in_map_iff in Hk.
    destruct Hk as [x [<- Hx]]. destruct (Nat.eqb _ _); [rewrite Hc|]; now apply in_map. Qed.

  Lemma with_samplers_samplers (sc : sched LossV) l : sched_samplers _ (with_samplers _ sc l) = l.
  Proof. destruct sc; reflexivity. Qed.
  Lemma sched_update_samplers (sc : sched LossV) nl : sched_samplers _ (sched_update _ loss_leb sc nl) = sched_samplers _ sc.
  Proof. destruct sc as [l b|l h best st al cs]; cbn; [reflexivity|]. destruct (min_loss _ _ _); [destruct best|]; reflexivity. Qed.
  Lemma next_sampler_samplers (sc sc1 : sched LossV) i : next_sampler _ agent_actions sc = Some (i, sc1) ->
     sched_samplers _ sc1 = sched_samplers _ sc.
  Proof. destruct sc as [l b|l h best st al cs]; cbn.
    - destruct l; [discriminate|]. intros H; injection H as _ <-. reflexivity.
    - destruct best; intros H; injection H as _ <-; reflexivity. Qed.

  Lemma one_batch_tbl s s' o : one_batch s = (s', o) ->
     tbl _ _ _ (live _ _ _ s') = tbl _ _ _ (live _ _ _ s) /\
     (forall k, In k (classes_of (live _ _ _ s')) -> In k (classes_of (live _ _ _ s))) /\
     (disk _ _ _ s' = disk _ _ _ s \/ disk _ _ _ s' = Some (live _ _ _ s')).
  Proof.
    unfold Calibrator.one_batch, classes_of. intros H.
    destruct (next_sampler LossV agent_actions (sch _ _ _ (live _ _ _ s))) as [[i sc1]|] eqn:Hn.
    2:{ injection H as <- <-. auto. }
    pose proof (next_sampler_samplers _ _ _ Hn) as Hsame.
    destruct (nth_error (sched_samplers LossV sc1) i) as [m|] eqn:Hm.
    2:{ injection H as <- <-. cbn. rewrite Hsame. auto. }
    assert (Hcl : forall k, In k (map s_class (sched_samplers _ (with_samplers _ sc1 (replace_uid (called m) (sched_samplers _ sc1))))) ->
                   In k (map s_class (sched_samplers _ (sch _ _ _ (live _ _ _ s))))).
    { intros k. rewrite with_samplers_samplers, <- Hsame. apply replace_uid_classes with (m := m); auto.
      eapply nth_error_In; eauto. }
    destruct (sampler_faults plan m). { injection H as <- <-. cbn. auto. }
    destruct (simulate _ _ _ _ _ _ _ _ _) as [rows|n]. 2:{ injection H as <- <-. cbn. auto. }
    destruct (eval_losses _ _ _ _ rows _) as [nl|n]. 2:{ injection H as <- <-. cbn. auto. }
    destruct (tlookup _ _) as [mid|]. 2:{ injection H as <- <-. cbn. auto. }
    set (c' := mkCore _ _ _ _ _ _ _ _ _ _ _ _ _ _ _ _) in H.
    assert (Hc' : tbl _ _ _ c' = tbl _ _ _ (live _ _ _ s) /\
                  forall k, In k (map s_class (sched_samplers _ (sch _ _ _ c'))) -> In k (map s_class (sched_samplers _ (sch _ _ _ (live _ _ _ s))))).
    { unfold c'; cbn. split; [reflexivity|]. intros k. rewrite sched_update_samplers. apply Hcl. }
    destruct Hc' as [Ht Hk].
    repeat bm H; injection H as <- <-; cbn; repeat split; auto;
      right; f_equal; match goal with Hs : save _ _ _ c' = Some _ |- _ => unfold save in Hs; destruct (sch _ _ _ c'); congruence end.
  Qed.

  Lemma TInv_of_tbl c c' : TInv c -> tbl _ _ _ c' = tbl _ _ _ c ->
     (forall k, In k (classes_of c') -> In k (classes_of c)) -> TInv c'.
  Proof. intros [Hne Hi Hc] Ht Hk. constructor; rewrite Ht; auto. Qed.

  Lemma one_batch_TInv s s' o : TInvS s -> one_batch s = (s', o) -> TInvS s'.
  Proof. intros [Hl Hd] H. destruct (one_batch_tbl _ _ _ H) as (Ht & Hk & Hdk).
    assert (TInv (live _ _ _ s')) by (eapply TInv_of_tbl; eauto).
    split; [assumption|]. intros d Hd'. destruct Hdk as [E|E]; [apply Hd; congruence | congruence]. Qed.

  Lemma batches_TInv : forall n s s' o, TInvS s -> batches n s = (s', o) -> TInvS s' /\ tbl _ _ _ (live _ _ _ s') = tbl _ _ _ (live _ _ _ s).
  Proof. induction n as [|n IH]; intros s s' o Hi H; cbn in H; [injection H as <- <-; auto|].
    destruct (one_batch s) as [s1 o1] eqn:E1. pose proof (one_batch_TInv _ _ _ Hi E1) as Hi1.
    destruct (one_batch_tbl _ _ _ E1) as (Ht1 & _).
    destruct o1; try (injection H as <- <-; auto).
    destruct (IH _ _ _ Hi1 H) as [Hi2 Ht2]. split; [exact Hi2 | congruence]. Qed.

  Lemma reseed_from_classes l : forall k, map s_class (reseed_from draws k l) = map s_class l.
  Proof. induction l as [|s l IH]; intros k; cbn; [reflexivity|]. now rewrite IH. Qed.

  Lemma seeds_TInv c : TInv c -> TInv (set_samplers_seeds _ _ _ draws c).
  Proof. intros Hi. eapply TInv_of_tbl; [exact Hi | reflexivity |]. unfold classes_of, set_samplers_seeds. cbn.
    destruct (sch _ _ _ c); cbn; intros k; now rewrite reseed_from_classes. Qed.

  Lemma set_sch_same_classes c (sc : sched LossV) : sched_samplers _ sc = sched_samplers _ (sch _ _ _ c) -> TInv c -> TInv (set_sch _ _ _ c sc).
  Proof. intros Hs Hi. eapply TInv_of_tbl; [exact Hi|reflexivity|]. unfold classes_of. cbn. now rewrite Hs. Qed.

  Lemma start_session_samplers (sc sc' : sched LossV) : start_session _ sc = inl sc' -> sched_samplers _ sc' = sched_samplers _ sc.
  Proof. destruct sc as [|l h b st al cs]; cbn; [intros H; now injection H as <-|]. destruct st; [|discriminate]. intros H; now injection H as <-. Qed.
  Lemma end_session_samplers (sc sc' : sched LossV) : end_session _ sc = inl sc' -> sched_samplers _ sc' = sched_samplers _ sc.
  Proof. destruct sc as [|l h b st al cs]; cbn; [intros H; now injection H as <-|]. destruct st; [discriminate|]. intros H; now injection H as <-. Qed.

  Lemma calibrate_pos_TInv n s s' e r : TInvS s -> calibrate_pos n s = (s', e, r) ->
     TInvS s' /\ tbl _ _ _ (live _ _ _ s') = tbl _ _ _ (live _ _ _ s).
  Proof.
    intros [Hl Hd] H. unfold Calibrator.calibrate_pos in H.
    set (c1 := if Nat.eqb _ 0 then _ else _) in H.
    assert (Hc1 : TInv c1 /\ tbl _ _ _ c1 = tbl _ _ _ (live _ _ _ s)).
    { unfold c1; destruct (Nat.eqb _ 0); [split; [now apply seeds_TInv | reflexivity] | auto]. }
    destruct Hc1 as [Hc1 Ht1].
    destruct (start_session _ _) as [sc|e0] eqn:Hss. 2:{ injection H as <- <- <-. split; [split; auto | exact Ht1]. }
    destruct (batches n _) as [s1 o1] eqn:Hb.
    assert (Hi0 : TInvS (mkSt _ _ _ (set_sch _ _ _ c1 sc) (disk _ _ _ s))).
    { split; [apply set_sch_same_classes; [now apply start_session_samplers | exact Hc1] | exact Hd]. }
    destruct (batches_TInv _ _ _ _ Hi0 Hb) as [[Hl1 Hd1] Ht2]. cbn in Ht2.
    destruct o1; destruct (end_session _ _) as [sc'|e1] eqn:Hes; injection H as <- <- <-;
      (split; [split; [try (apply set_sch_same_classes; [now apply end_session_samplers | exact Hl1]); try exact Hl1 | exact Hd1] | cbn; congruence]).
  Qed.

  Notation calibrate := (calibrate Param Series LossV model lossf loss_leb rounds0 propose draws agent_actions plan).
  Lemma calibrate_TInv n s s' e r : TInvS s -> calibrate n s = (s', e, r) ->
     TInvS s' /\ tbl _ _ _ (live _ _ _ s') = tbl _ _ _ (live _ _ _ s).
  Proof. intros Hi H. rewrite (calibrate_unfold Param Series LossV) in H. destruct n; [|eapply calibrate_pos_TInv; eauto].
    destruct (calibrate_pos 0 s) as [[s1 e1] r1] eqn:E. destruct (calibrate_pos_TInv _ _ _ _ _ Hi E) as [[Hl Hd] Ht].
    apply zero_ckpt_cases in H. destruct H as [(-> & _ & _) | [(_ & Hlive & Hdisk & _) | (_ & -> & _)]]; [split; [split|]; auto | | split; [split|]; auto].
    split; [split|]; rewrite ?Hlive; auto. intros d Hd'. rewrite Hdisk in Hd'. injection Hd' as <-. exact Hl. Qed.

  Lemma step_TInv s o s' e r : TInvS s -> step s o = (s', e, r) -> TInvS s'.
  Proof.
    intros Hi H. destruct o; cbn in H.
    - eapply calibrate_TInv; eauto.
    - unfold create_checkpoint in H. destruct Hi as [Hl Hd]. destruct (save _ _ _ _) eqn:Hs; injection H as <- <- <-; [|split; auto].
      split; [exact Hl|]. cbn. intros d Hd'. injection Hd' as <-. unfold save in Hs. destruct (sch _ _ _ _); [|discriminate]. now injection Hs as <-.
    - unfold restore in H. destruct Hi as [Hl Hd]. destruct (disk _ _ _ s) as [d|] eqn:Hdk; injection H as <- <- <-.
      + split; [|cbn; exact Hd]. cbn. specialize (Hd d eq_refl). eapply TInv_of_tbl; [exact Hd|reflexivity|intros k Hk; exact Hk].
      + split; [exact Hl | now rewrite Hdk].
    - unfold set_samplers in H. destruct Hi as [[Hne Hinj Hcov] Hd].
      destruct (tupdate _ _) as [t|] eqn:Ht.
      2:{ exfalso. unfold tupdate, tmax in Ht. destruct (tbl _ _ _ (live _ _ _ s)); [congruence|discriminate]. }
      injection H as <- <- <-. split; [|exact Hd]. constructor; cbn.
      + intros E. subst t. destruct (tbl _ _ _ (live _ _ _ s)) as [|[c0 i0] t0] eqn:Et; [congruence|].
        assert (Hx : tlookup c0 [] = Some i0) by (eapply tupdate_mono; [exact Ht | cbn; now rewrite Nat.eqb_refl]). discriminate.
      + eapply tupdate_inj; eauto.
      + unfold classes_of; cbn. rewrite with_samplers_samplers. intros k Hk. apply in_map_iff in Hk. destruct Hk as [x [<- Hx]].
        eapply tupdate_covers; eauto.
    - unfold set_scheduler in H. destruct Hi as [[Hne Hinj Hcov] Hd].
      destruct (tupdate _ _) as [t|] eqn:Ht.
      2:{ exfalso. unfold tupdate, tmax in Ht. destruct (tbl _ _ _ (live _ _ _ s)); [congruence|discriminate]. }
      injection H as <- <- <-. split; [|exact Hd]. constructor; cbn.
      + intros E. subst t. destruct (tbl _ _ _ (live _ _ _ s)) as [|[c0 i0] t0] eqn:Et; [congruence|].
        assert (Hx : tlookup c0 [] = Some i0) by (eapply tupdate_mono; [exact Ht | cbn; now rewrite Nat.eqb_refl]). discriminate.
      + eapply tupdate_inj; eauto.
      + unfold classes_of; cbn. intros k Hk. apply in_map_iff in Hk. destruct Hk as [x [<- Hx]].
        eapply tupdate_covers; eauto.
  Qed.

  Lemma run_TInv : forall ops s, TInvS s -> TInvS (run ops s).
  Proof. induction ops as [|o ops IH]; intros s Hi; cbn; [exact Hi|]. apply IH.
    destruct (step s o) as [[s' e] r] eqn:E. cbn. eapply step_TInv; eauto. Qed.

  Lemma tconstruct_ne l : l <> [] -> tconstruct l <> [].
  Proof. destruct l as [|s l]; [congruence|]. intros _ E. 
    assert (H : tlookup (s_class s) (tconstruct (s :: l)) <> None) by (apply tconstruct_from_covers; now left).
    rewrite E in H. now apply H. Qed.

  Lemma construct_TInv cfg0 samplers scheduler s :
    construct Param Series LossV cfg0 samplers scheduler = inl s -> sched_samplers _ (sch _ _ _ (live _ _ _ s)) <> [] -> TInvS s.
  Proof. unfold construct. destruct (ctor_validation_raises _ _); [discriminate|].
    destruct (match samplers with Some l => _ | None => scheduler end) as [sc|]; [|discriminate].
    intros H. injection H as <-. cbn. intros Hne. split; [|discriminate]. constructor; cbn.
    - now apply tconstruct_ne.
    - apply tconstruct_inj.
    - unfold classes_of; cbn. intros k Hk. apply in_map_iff in Hk. destruct Hk as [x [<- Hx]]. now apply tconstruct_from_covers. Qed.

  (* ids are never reassigned: every operation except restore keeps every (class, id) entry *)
  Theorem table_monotone s o s' e r c i : TInvS s -> step s o = (s', e, r) -> o <> ORestore ->
     tlookup c (tbl _ _ _ (live _ _ _ s)) = Some i -> tlookup c (tbl _ _ _ (live _ _ _ s')) = Some i.
  Proof.
    intros Hi H Hno Hl. destruct o; cbn in H; try congruence.
    - destruct (calibrate_TInv _ _ _ _ _ Hi H) as [_ Ht]. now rewrite Ht.
    - unfold create_checkpoint in H. destruct (save _ _ _ _); injection H as <- <- <-; exact Hl.
    - unfold set_samplers in H. destruct (tupdate _ _) eqn:Ht; injection H as <- <- <-; cbn; [eapply tupdate_mono; eauto | exact Hl].
    - unfold set_scheduler in H. destruct (tupdate _ _) eqn:Ht; injection H as <- <- <-; cbn; [eapply tupdate_mono; eauto | exact Hl].
  Qed.

  (* a restore returns exactly the table that was saved with the checkpoint *)
  Theorem restore_table (s s' : cstate) e d : restore Param Series LossV s = (s', e) -> disk _ _ _ s = Some d ->
     tbl _ _ _ (live _ _ _ s') = tbl _ _ _ d /\ methods _ _ _ (live _ _ _ s') = methods _ _ _ d.
  Proof. unfold restore. intros H Hd. rewrite Hd in H. injection H as <- <-. cbn. auto. Qed.

  (* the KeyError branch of one_batch is unreachable: the designated sampler's class is always in the table *)
  Theorem designated_class_in_table s i sc1 m : TInvS s ->
     next_sampler _ agent_actions (sch _ _ _ (live _ _ _ s)) = Some (i, sc1) -> nth_error (sched_samplers _ sc1) i = Some m ->
     tlookup (s_class m) (tbl _ _ _ (live _ _ _ s)) <> None.
  Proof. intros [[_ _ Hc] _] Hn Hm. apply Hc. unfold classes_of. rewrite <- (next_sampler_samplers _ _ _ Hn).
    apply in_map. eapply nth_error_In; eauto. Qed.
End T.
