(* Lemmas about Model/Halton.v *)
From Coq Require Import List ZArith QArith Qabs Bool Lia Lqa Znumtheory Sorted.
From BlackIt Require Import Model.Halton.
Import ListNotations.
Open Scope Z_scope.

(* ------------------------------------------------------------------ zrange *)

Lemma zrange_app k1 : forall a k2, zrange a (k1 + k2) = zrange a k1 ++ zrange (a + Z.of_nat k1) k2.
Proof.
  induction k1 as [|k1 IH]; intros a k2.
  - cbn [zrange Nat.add app]. f_equal. lia.
  - cbn [zrange Nat.add app]. rewrite IH.
    replace (a + 1 + Z.of_nat k1) with (a + Z.of_nat (S k1)) by lia. reflexivity.
Qed.

Lemma zrange_In k : forall a x, In x (zrange a k) <-> a <= x < a + Z.of_nat k.
Proof.
  induction k as [|k IH]; intros a x; cbn [zrange In].
  - lia.
  - rewrite IH. lia.
Qed.

Lemma zrange_length k : forall a, length (zrange a k) = k.
Proof. induction k; intros; cbn; auto. Qed.

Lemma zrange_NoDup k : forall a, NoDup (zrange a k).
Proof.
  induction k as [|k IH]; intros a; cbn [zrange]; constructor; [|apply IH].
  rewrite zrange_In. lia.
Qed.

Lemma zrange_exact a k : NoDup (zrange a k) /\ forall x, In x (zrange a k) <-> a <= x < a + Z.of_nat k.
Proof. split; [apply zrange_NoDup | intros x; apply zrange_In]. Qed.

Lemma zrange_nth k : forall a j, (j < k)%nat -> nth j (zrange a k) 0 = a + Z.of_nat j.
Proof.
  induction k as [|k IH]; intros a j H; [lia|]. destruct j as [|j]; cbn [zrange nth]; [lia|].
  rewrite IH by lia. lia.
Qed.

(* ------------------------------------------------------------------ digits *)

Lemma dsum_shift b ds : forall j, 0 <= j -> dsum b (j + 1) ds = b * dsum b j ds.
Proof.
  induction ds as [|d r IH]; intros j Hj; cbn [dsum]; [ring|].
  rewrite IH by lia. rewrite Z.pow_add_r by lia. ring.
Qed.

Lemma digits_fuel_0 f b : digits_fuel f b 0 = [].
Proof. destruct f; reflexivity. Qed.

Lemma digits_fuel_spec f : forall b n, 2 <= b -> 0 <= n -> n < 2 ^ Z.of_nat f ->
  n = dsum b 0 (digits_fuel f b n) /\ Forall (fun d => 0 <= d < b) (digits_fuel f b n).
Proof.
  induction f as [|f IH]; intros b n Hb Hn Hlt.
  - cbn in Hlt. assert (n = 0) by lia. subst. cbn. auto.
  - cbn [digits_fuel]. destruct (n <=? 0) eqn:E.
    + assert (n = 0) by lia. subst. cbn. auto.
    + assert (Hq : 0 <= n / b) by (apply Z.div_pos; lia).
      assert (Hlt' : n / b < 2 ^ Z.of_nat f).
      { apply Z.div_lt_upper_bound; [lia|]. rewrite Nat2Z.inj_succ, Z.pow_succ_r in Hlt by lia.
        assert (0 < 2 ^ Z.of_nat f) by (apply Z.pow_pos_nonneg; lia). nia. }
      destruct (IH b (n / b) Hb Hq Hlt') as [E1 E2]. split.
      * cbn [dsum]. rewrite (dsum_shift b _ 0) by lia. rewrite <- E1. rewrite Z.pow_0_r.
        pose proof (Z.div_mod n b ltac:(lia)). lia.
      * constructor; [apply Z.mod_pos_bound; lia | exact E2].
Qed.

Lemma dfuel_bound n : 0 <= n -> n < 2 ^ Z.of_nat (dfuel n).
Proof.
  intros Hn. unfold dfuel. rewrite Nat2Z.inj_succ, Z2Nat.id by apply Z.log2_nonneg.
  destruct (Z.eq_dec n 0) as [->|Hz]; [cbn; lia|].
  apply Z.log2_spec. lia.
Qed.

Lemma digits_spec b n : 2 <= b -> 0 <= n ->
  n = dsum b 0 (digits b n) /\ Forall (fun d => 0 <= d < b) (digits b n).
Proof. intros. apply digits_fuel_spec; auto. now apply dfuel_bound. Qed.

(* enough fuel = any larger fuel *)
Lemma digits_fuel_enough f : forall b n, 2 <= b -> 0 <= n -> n / b ^ Z.of_nat f = 0 ->
  forall f', (f <= f')%nat -> digits_fuel f' b n = digits_fuel f b n.
Proof.
  induction f as [|f IH]; intros b n Hb Hn Hz f' Hf.
  - cbn in Hz. rewrite Z.div_1_r in Hz. subst. now rewrite !digits_fuel_0.
  - destruct f' as [|f']; [lia|]. cbn [digits_fuel]. destruct (n <=? 0); [reflexivity|].
    f_equal. apply IH; [lia | apply Z.div_pos; lia | | lia].
    rewrite Z.div_div by (try lia; apply Z.pow_pos_nonneg; lia).
    rewrite Nat2Z.inj_succ, Z.pow_succ_r in Hz by lia. exact Hz.
Qed.

Lemma div_pow_dfuel b n t : 2 <= b -> 0 <= n -> (dfuel n <= t)%nat -> n / b ^ Z.of_nat t = 0.
Proof.
  intros Hb Hn Ht. apply Z.div_small. split; [lia|].
  pose proof (dfuel_bound n Hn).
  assert (2 ^ Z.of_nat (dfuel n) <= 2 ^ Z.of_nat t) by (apply Z.pow_le_mono_r; lia).
  assert (2 ^ Z.of_nat t <= b ^ Z.of_nat t) by (apply Z.pow_le_mono_l; lia). lia.
Qed.

Lemma digits_fuel_digits b n t : 2 <= b -> 0 <= n -> n / b ^ Z.of_nat t = 0 -> digits_fuel t b n = digits b n.
Proof.
  intros Hb Hn Hz. unfold digits.
  rewrite <- (digits_fuel_enough t b n Hb Hn Hz (Nat.max t (dfuel n))) by lia.
  apply digits_fuel_enough; auto; [|lia]. apply div_pow_dfuel; auto.
Qed.

(* ------------------------------------------------------------------ radical inverse *)

Lemma inject_Z_pos b : 0 < b -> (0 < inject_Z b)%Q.
Proof. intros. change 0%Q with (inject_Z 0). now rewrite <- Zlt_Qlt. Qed.
Lemma inject_Z_nz b : 0 < b -> ~ (inject_Z b == 0)%Q.
Proof. intros H E. apply inject_Z_pos in H. rewrite E in H. now apply Qlt_irrefl in H. Qed.

Lemma rsum_shift b ds : 0 < b -> forall j, 0 <= j -> (rsum b (j + 1) ds == rsum b j ds / inject_Z b)%Q.
Proof.
  intros Hb. induction ds as [|d r IH]; intros j Hj; cbn [rsum].
  - unfold Qdiv. ring.
  - rewrite IH by lia. replace (j + 1 + 1) with (Z.succ (j + 1)) by lia.
    rewrite Z.pow_succ_r by lia. rewrite inject_Z_mult.
    assert (~ (inject_Z b == 0)%Q) by now apply inject_Z_nz.
    assert (~ (inject_Z (b ^ (j + 1)) == 0)%Q) by (apply inject_Z_nz, Z.pow_pos_nonneg; lia).
    field. split; auto.
Qed.

Lemma rsum_cons0 b d r : 0 < b -> (rsum b 0 (d :: r) == (inject_Z d + rsum b 0 r) / inject_Z b)%Q.
Proof.
  intros Hb. cbn [rsum]. rewrite (rsum_shift b r Hb 0) by lia. cbn [Z.add]. rewrite Z.pow_1_r.
  assert (~ (inject_Z b == 0)%Q) by now apply inject_Z_nz. field. auto.
Qed.

Lemma rsum_range b ds : 2 <= b -> Forall (fun d => 0 <= d < b) ds -> (0 <= rsum b 0 ds /\ rsum b 0 ds < 1)%Q.
Proof.
  intros Hb H. induction H as [|d r Hd Hr IH].
  - cbn. split; [apply Qle_refl | reflexivity].
  - rewrite rsum_cons0 by lia. destruct IH as [I1 I2].
    assert (Pb : (0 < inject_Z b)%Q) by (apply inject_Z_pos; lia).
    assert (D0 : (0 <= inject_Z d)%Q) by (change 0%Q with (inject_Z 0); rewrite <- Zle_Qle; lia).
    assert (D1 : (inject_Z d + 1 <= inject_Z b)%Q).
    { change 1%Q with (inject_Z 1). rewrite <- inject_Z_plus, <- Zle_Qle. lia. }
    split.
    + apply Qle_shift_div_l; auto. lra.
    + apply Qlt_shift_div_r; auto. lra.
Qed.

Lemma radinv_range b n : 2 <= b -> 0 <= n -> (0 <= radinv b n /\ radinv b n < 1)%Q.
Proof. intros Hb Hn. apply rsum_range; auto. now apply digits_spec. Qed.

(* ------------------------------------------------------------------ the vectorised loop is the per-base loop *)

Lemma qacc_correct a t : (qacc a t == a + t)%Q.
Proof.
  unfold qacc. destruct (Qnum t =? 0) eqn:E; [|apply Qred_correct].
  assert (Ht : (t == 0)%Q) by (unfold Qeq; cbn; lia). rewrite Ht. ring.
Qed.

Definition sstate := (Z * Q * bool * Q)%type.
Definition s_i (s : sstate) : Z := fst (fst (fst s)).
Definition s_den (s : sstate) : Q := snd (fst (fst s)).
Definition s_dn (s : sstate) : bool := snd (fst s).
Definition s_acc (s : sstate) : Q := snd s.

Definition sstep (b : Z) (s : sstate) : sstate :=
  let q := s_i s / b in
  let r := s_i s mod b in
  let den' := (s_den s * inject_Z b)%Q in
  let r' := if s_dn s then 0 else r in
  (q, den', s_dn s || (q =? 0), qacc (s_acc s) (inject_Z r' / den')%Q).

Fixpoint siter (t : nat) (b : Z) (s : sstate) : sstate :=
  match t with O => s | S t' => siter t' b (sstep b s) end.
Fixpoint viter (t : nat) (bases : list Z) (st : vstate) : vstate :=
  match t with O => st | S t' => viter t' bases (vstep bases st) end.

Definition vs_of (l : list sstate) : vstate :=
  {| vi := map s_i l; vden := map s_den l; vdone := map s_dn l; vacc := map s_acc l |}.

Lemma zip2_length {A B C} (f : A -> B -> C) l1 : forall l2, length l1 = length l2 -> length (zip2 f l1 l2) = length l1.
Proof. induction l1; intros [|] H; cbn in *; try discriminate; auto. Qed.

Lemma vstep_vs_of bases : forall l, length l = length bases -> vstep bases (vs_of l) = vs_of (zip2 sstep bases l).
Proof.
  induction bases as [|b bs IH]; intros [|[[[i den] dn] acc] l] H; try discriminate; [reflexivity|].
  cbn in H. injection H as H. specialize (IH l H).
  pose proof (f_equal vi IH) as E1. pose proof (f_equal vden IH) as E2.
  pose proof (f_equal vdone IH) as E3. pose proof (f_equal vacc IH) as E4. clear IH.
  unfold vstep, vs_of in *. cbn [map zip2 vi vden vdone vacc] in *.
  f_equal; (apply f_equal2; [reflexivity | assumption]).
Qed.

Lemma zip2_siter_step t bases : forall l,
  zip2 (siter t) bases (zip2 sstep bases l) = zip2 (siter (S t)) bases l.
Proof. induction bases as [|b bs IH]; intros [|s l]; cbn [zip2]; auto. rewrite IH. reflexivity. Qed.

Lemma viter_vs_of t : forall bases l, length l = length bases ->
  viter t bases (vs_of l) = vs_of (zip2 (siter t) bases l).
Proof.
  induction t as [|t IH]; intros bases l H.
  - cbn [viter]. f_equal. revert l H. induction bases; intros [|s l] H; cbn in *; try discriminate; auto.
    f_equal. apply IHbases. lia.
  - cbn [viter]. rewrite vstep_vs_of by auto. rewrite IH.
    + now rewrite zip2_siter_step.
    + rewrite zip2_length; auto.
Qed.

Lemma vloop_viter fuel : forall bases st, exists t, (t <= fuel)%nat /\ vloop fuel bases st = viter t bases st /\
  (t = fuel \/ existsb (fun x => 0 <? x) (vi (viter t bases st)) = false).
Proof.
  induction fuel as [|f IH]; intros bases st.
  - exists O. cbn. auto.
  - cbn [vloop]. destruct (existsb (fun x => 0 <? x) (vi st)) eqn:E.
    + destruct (IH bases (vstep bases st)) as (t & Ht & E1 & E2). exists (S t). cbn [viter].
      repeat split; [lia | exact E1 | destruct E2; [left; lia | right; auto]].
    + exists O. cbn [viter]. repeat split; [lia | auto].
Qed.

Lemma zip2_const {A B C} (f : A -> B -> C) (c : B) l : zip2 f l (map (fun _ => c) l) = map (fun a => f a c) l.
Proof. induction l; cbn; congruence. Qed.

Lemma vinit_vs_of bases n : vinit bases n = vs_of (map (fun _ => (n, 1%Q, false, 0%Q)) bases).
Proof. unfold vinit, vs_of. rewrite !map_map. reflexivity. Qed.

(* the scalar loop: after t passes i = n / b^t and the accumulator holds the first t mirrored digits;
   the mask never changes a value because done -> i = 0 -> remainder 0 *)
Lemma siter_spec t : forall b s, 2 <= b -> 0 <= s_i s -> (s_dn s = true -> s_i s = 0) -> (0 < s_den s)%Q ->
  s_i (siter t b s) = s_i s / b ^ Z.of_nat t /\
  (s_acc (siter t b s) == s_acc s + rsum b 0 (digits_fuel t b (s_i s)) / s_den s)%Q.
Proof.
  induction t as [|t IH]; intros b s Hb Hi Hdn Hden.
  - cbn [siter digits_fuel rsum Z.of_nat]. rewrite Z.pow_0_r, Z.div_1_r. split; [reflexivity|].
    unfold Qdiv. ring.
  - cbn [siter].
    assert (Hq : 0 <= s_i s / b) by (apply Z.div_pos; lia).
    assert (Pb : (0 < inject_Z b)%Q) by (apply inject_Z_pos; lia).
    assert (NZb : ~ (inject_Z b == 0)%Q) by (apply inject_Z_nz; lia).
    assert (NZd : ~ (s_den s == 0)%Q) by (intros E; rewrite E in Hden; now apply Qlt_irrefl in Hden).
    destruct (IH b (sstep b s) Hb) as [I1 I2].
    + exact Hq.
    + unfold sstep, s_dn, s_i. cbn [fst snd]. fold (s_dn s) (s_i s). intros H.
      apply orb_true_iff in H. destruct H as [H|H]; [rewrite (Hdn H); reflexivity | lia].
    + unfold sstep, s_den. cbn [fst snd]. fold (s_den s). apply Qmult_lt_0_compat; auto.
    + split.
      * rewrite I1. unfold sstep, s_i at 1. cbn [fst snd].
        rewrite Z.div_div by (try lia; apply Z.pow_pos_nonneg; lia).
        now rewrite Nat2Z.inj_succ, Z.pow_succ_r by lia.
      * rewrite I2.
        change (s_acc (sstep b s)) with (qacc (s_acc s) (inject_Z (if s_dn s then 0 else s_i s mod b) / (s_den s * inject_Z b))).
        change (s_i (sstep b s)) with (s_i s / b). change (s_den (sstep b s)) with (s_den s * inject_Z b)%Q.
        rewrite qacc_correct.
        cbn [digits_fuel]. destruct (s_i s <=? 0) eqn:E.
        -- assert (Ez : s_i s = 0) by lia. rewrite Ez. cbn [Z.div Z.modulo Z.div_eucl].
           rewrite digits_fuel_0. cbn [rsum].
           destruct (s_dn s); field; auto.
        -- destruct (s_dn s) eqn:Edn; [specialize (Hdn eq_refl); lia|].
           rewrite rsum_cons0 by lia. field. auto.
Qed.

Lemma Forall2_map_in {A} (f g : A -> Q) l : (forall a, In a l -> (f a == g a)%Q) -> Forall2 Qeq (map f l) (map g l).
Proof. induction l; cbn; intros H; constructor; auto. Qed.

Theorem masked_loop_eq_per_base bases n : Forall (fun b => 2 <= b) bases -> 0 <= n ->
  Forall2 Qeq (halton_point bases n) (map (fun b => radinv b n) bases).
Proof.
  intros Hb Hn. unfold halton_point.
  destruct (vloop_viter (dfuel n) bases (vinit bases n)) as (t & Ht & E & Hstop).
  rewrite E, vinit_vs_of in *. rewrite viter_vs_of in * by now rewrite map_length.
  rewrite zip2_const in *. cbn [vs_of vacc vi] in *. rewrite map_map in *.
  apply Forall2_map_in. intros b Hin.
  rewrite Forall_forall in Hb. specialize (Hb b Hin).
  destruct (siter_spec t b (n, 1%Q, false, 0%Q) Hb) as [I1 I2];
    [exact Hn | discriminate | reflexivity |].
  cbn [s_i s_acc s_den fst snd] in I1, I2. rewrite I2.
  assert (Hz : n / b ^ Z.of_nat t = 0).
  { destruct Hstop as [->|Hs]; [apply div_pow_dfuel; auto|].
    rewrite <- I1. assert (Hfa := existsb_nth).
    destruct (Z.ltb_spec 0 (s_i (siter t b (n, 1%Q, false, 0%Q)))) as [Hpos|Hle].
    - exfalso. assert (Ex : existsb (fun x => 0 <? x) (map (fun x => s_i (siter t x (n, 1%Q, false, 0%Q))) bases) = true).
      { apply existsb_exists. exists (s_i (siter t b (n, 1%Q, false, 0%Q))). split; [|lia].
        apply in_map_iff. exists b. auto. }
      congruence.
    - rewrite I1 in *. assert (0 <= n / b ^ Z.of_nat t) by (apply Z.div_pos; [lia | apply Z.pow_pos_nonneg; lia]). lia. }
  rewrite (digits_fuel_digits b n t Hb Hn Hz). unfold radinv, Qdiv.
  setoid_replace (/ 1)%Q with 1%Q by reflexivity. ring.
Qed.

(* ------------------------------------------------------------------ batches *)

Lemma hpoints_concat bases s k1 k2 :
  hpoints bases s k1 ++ hpoints bases (s + Z.of_nat k1) k2 = hpoints bases s (k1 + k2).
Proof. unfold hpoints. rewrite zrange_app, map_app. do 3 f_equal. lia. Qed.

Lemma hpoints_length bases s k : length (hpoints bases s k) = k.
Proof. unfold hpoints. now rewrite map_length, zrange_length. Qed.

(* the j-th row of a batch started at cursor s is the point of index s + 1 + j *)
Lemma hpoints_nth bases s k j : (j < k)%nat ->
  nth j (hpoints bases s k) [] = halton_point bases (s + 1 + Z.of_nat j).
Proof.
  intros H. unfold hpoints.
  rewrite (nth_indep _ [] (halton_point bases 0)) by now rewrite map_length, zrange_length.
  rewrite map_nth. now rewrite zrange_nth.
Qed.

Lemma forallb_gt1 bases : forallb (fun b => 1 <? b) bases = true <-> Forall (fun b => 2 <= b) bases.
Proof. rewrite forallb_forall, Forall_forall. split; intros H b Hb; specialize (H b Hb); lia. Qed.

Lemma halton_some k bases s : 0 < k -> Forall (fun b => 2 <= b) bases -> 0 <= s ->
  halton k bases s = Some (hpoints bases s (Z.to_nat k)).
Proof.
  intros Hk Hb Hs. unfold halton. apply forallb_gt1 in Hb. rewrite Hb.
  destruct (0 <? k) eqn:E1; [|lia]. destruct (0 <=? s) eqn:E2; [|lia]. reflexivity.
Qed.

Lemma halton_inv k bases s pts : halton k bases s = Some pts ->
  0 < k /\ Forall (fun b => 2 <= b) bases /\ 0 <= s /\ pts = hpoints bases s (Z.to_nat k).
Proof.
  unfold halton. destruct (0 <? k) eqn:E1; cbn [negb]; [|discriminate].
  destruct (forallb (fun b => 1 <? b) bases) eqn:E2; cbn [negb]; [|discriminate].
  destruct (0 <=? s) eqn:E3; cbn [negb]; [|discriminate].
  intros H. injection H as <-. apply forallb_gt1 in E2. repeat split; auto; lia.
Qed.

(* halton() raises exactly when an argument is invalid *)
Lemma halton_none k bases s : halton k bases s = None <-> (k <= 0 \/ ~ Forall (fun b => 2 <= b) bases \/ s < 0).
Proof.
  split.
  - intros H. destruct (Z_lt_le_dec 0 k) as [Hk|Hk]; [|auto]. destruct (Z_lt_le_dec s 0) as [Hs|Hs]; [auto|].
    right. left. intros Hb. rewrite halton_some in H by auto. discriminate.
  - intros H. destruct (halton k bases s) eqn:E; [|reflexivity]. apply halton_inv in E.
    destruct E as (E1 & E2 & E3 & _). destruct H as [H|[H|H]]; [lia | contradiction | lia].
Qed.

Theorem batches_concat bases s k1 k2 a b :
  halton k1 bases s = Some a -> halton k2 bases (s + k1) = Some b -> halton (k1 + k2) bases s = Some (a ++ b).
Proof.
  intros H1 H2. apply halton_inv in H1. apply halton_inv in H2.
  destruct H1 as (K1 & B & S1 & ->). destruct H2 as (K2 & _ & _ & ->).
  rewrite halton_some by (auto; lia). f_equal.
  rewrite Z2Nat.inj_add by lia. rewrite <- hpoints_concat. rewrite Z2Nat.id by lia. reflexivity.
Qed.

Definition zsum (ks : list Z) : Z := fold_right Z.add 0 ks.

Lemma zsum_nonneg ks : Forall (fun k => 0 < k) ks -> 0 <= zsum ks.
Proof. induction 1; unfold zsum in *; cbn [fold_right]; lia. Qed.

(* any list of (positive) batch sizes, any list of bases: the outputs concatenated are ONE batch of sum-k rows
   from the initial cursor, and the cursor ends at s + sum k *)
Theorem batches_fold bases : Forall (fun b => 2 <= b) bases -> forall ks s, Forall (fun k => 0 < k) ks -> 0 <= s ->
  hrun_b bases s ks = Some (hpoints bases s (Z.to_nat (zsum ks)), s + zsum ks).
Proof.
  intros Hb. induction ks as [|k r IH]; intros s Hk Hs.
  - cbn. do 2 f_equal. lia.
  - inversion Hk as [|? ? K1 K2]; subst. cbn [hrun_b]. unfold hsample_b.
    rewrite halton_some by auto. rewrite IH by (auto; lia).
    pose proof (zsum_nonneg r K2). cbn [zsum fold_right]. fold (zsum r).
    do 2 f_equal; [|lia].
    rewrite Z2Nat.inj_add by lia. rewrite <- hpoints_concat. now rewrite Z2Nat.id by lia.
Qed.

(* a batch of size <= 0 raises (check_arg) *)
Lemma hrun_b_raises bases s ks : Exists (fun k => k <= 0) ks -> hrun_b bases s ks = None.
Proof.
  intros H. revert s. induction H as [k r Hk | k r H IH]; intros s; cbn [hrun_b]; unfold hsample_b.
  - assert (E : halton k bases s = None) by (apply halton_none; auto). now rewrite E.
  - destruct (halton k bases s); [|reflexivity]. now rewrite IH.
Qed.

(* ------------------------------------------------------------------ primes *)

Lemma is_primeb_spec p : is_primeb p = true <-> prime p.
Proof.
  rewrite <- prime_alt. unfold is_primeb, prime'. rewrite andb_true_iff, forallb_forall. split.
  - intros [H1 H2]. split; [lia|]. intros n Hn Hd.
    assert (Hin : In n (zrange 2 (Z.to_nat (p - 2)))) by (apply zrange_In; lia).
    specialize (H2 n Hin). apply Z.mod_divide in Hd; [|lia]. rewrite Hd in H2. discriminate.
  - intros [H1 H2]. split; [lia|]. intros n Hin. apply zrange_In in Hin.
    destruct (p mod n =? 0) eqn:E; [|reflexivity]. exfalso. apply (H2 n); [lia|].
    apply Z.mod_divide; lia.
Qed.

Lemma primes40_all_prime : Forall prime primes40.
Proof.
  apply Forall_forall. intros p Hp. apply is_primeb_spec.
  assert (H : forallb is_primeb primes40 = true) by (vm_compute; reflexivity).
  rewrite forallb_forall in H. auto.
Qed.

Lemma primes40_complete p : prime p -> p <= 173 -> In p primes40.
Proof.
  intros Hp Hle. assert (H2 : 2 <= p) by (destruct Hp; lia).
  assert (H : forallb (fun q => implb (is_primeb q) (if in_dec Z.eq_dec q primes40 then true else false))
                (zrange 2 172) = true) by (vm_compute; reflexivity).
  rewrite forallb_forall in H. specialize (H p). rewrite zrange_In in H. specialize (H ltac:(lia)).
  apply is_primeb_spec in Hp. rewrite Hp in H. cbn [implb] in H. destruct (in_dec Z.eq_dec p primes40); [auto|discriminate].
Qed.

Lemma primes40_sorted : StronglySorted Z.lt primes40.
Proof. unfold primes40. repeat (constructor; [|repeat constructor; lia]). constructor. Qed.

Lemma primes40_length : length primes40 = 40%nat.
Proof. reflexivity. Qed.

(* reachable cache states: the one after asking for m primes (m = 0: fresh object) *)
Definition pc_after (m : nat) : pcache :=
  match get_n_primes (Z.of_nat m) pcache_init with Some (_, pc) => pc | None => pcache_init end.

Definition zz_eq_dec : forall a b : Z * Z, {a = b} + {a <> b}.
Proof. decide equality; apply Z.eq_dec. Defined.
Definition piter_eq_dec : forall a b : piter, {a = b} + {a <> b}.
Proof. decide equality; [apply Z.eq_dec | apply (list_eq_dec zz_eq_dec)]. Defined.
Definition pcache_eq_dec : forall a b : pcache, {a = b} + {a <> b}.
Proof. decide equality; [apply (list_eq_dec Z.eq_dec) | apply piter_eq_dec]. Defined.
Definition res_eq_dec : forall a b : option (list Z * pcache), {a = b} + {a <> b}.
Proof. decide equality. decide equality; [apply pcache_eq_dec | apply (list_eq_dec Z.eq_dec)]. Defined.

Definition cache_step_ok (m n : nat) : bool :=
  if res_eq_dec (get_n_primes (Z.of_nat n) (pc_after m)) (Some (firstn n primes40, pc_after (Nat.max m n)))
  then true else false.

Lemma cache_table : forallb (fun m => forallb (cache_step_ok m) (seq 1 40)) (seq 0 41) = true.
Proof. vm_compute. reflexivity. Qed.

Lemma get_n_primes_after m n : (m <= 40)%nat -> 1 <= n <= 40 ->
  get_n_primes n (pc_after m) = Some (firstn (Z.to_nat n) primes40, pc_after (Nat.max m (Z.to_nat n))).
Proof.
  intros Hm Hn. pose proof cache_table as H. rewrite forallb_forall in H.
  specialize (H m). rewrite in_seq in H. specialize (H ltac:(lia)). rewrite forallb_forall in H.
  specialize (H (Z.to_nat n)). rewrite in_seq in H. specialize (H ltac:(lia)).
  unfold cache_step_ok in H. rewrite Z2Nat.id in H by lia.
  destruct (res_eq_dec _ _) as [E|]; [exact E | discriminate].
Qed.

Theorem primes_first_40 n : 1 <= n <= 40 ->
  option_map fst (get_n_primes n pcache_init) = Some (firstn (Z.to_nat n) primes40).
Proof.
  intros Hn. change pcache_init with (pc_after 0). rewrite get_n_primes_after by lia. reflexivity.
Qed.

(* any history of calls on one calculator object *)
Fixpoint primes_calls (pc : pcache) (ns : list Z) : option (list (list Z)) :=
  match ns with
  | [] => Some []
  | n :: r => match get_n_primes n pc with
              | None => None
              | Some (ps, pc') => match primes_calls pc' r with None => None | Some out => Some (ps :: out) end
              end
  end.

Lemma primes_calls_after ns : forall m, (m <= 40)%nat -> Forall (fun n => 1 <= n <= 40) ns ->
  primes_calls (pc_after m) ns = Some (map (fun n => firstn (Z.to_nat n) primes40) ns).
Proof.
  induction ns as [|n r IH]; intros m Hm H; [reflexivity|].
  inversion H; subst. cbn [primes_calls map]. rewrite get_n_primes_after by auto.
  rewrite IH by (auto; lia). reflexivity.
Qed.

Theorem primes_any_history ns : Forall (fun n => 1 <= n <= 40) ns ->
  primes_calls pcache_init ns = Some (map (fun n => firstn (Z.to_nat n) primes40) ns).
Proof. intros H. change pcache_init with (pc_after 0). apply primes_calls_after; auto. lia. Qed.

Lemma get_n_primes_raises n pc : n < 1 -> get_n_primes n pc = None.
Proof. intros H. unfold get_n_primes. destruct (1 <=? n) eqn:E; [lia | reflexivity]. Qed.

(* ------------------------------------------------------------------ the sampler object: cursor + cache *)

(* what a run of calls (k, dims) from cursor s must return: call i gives rows cursor_i+1 .. cursor_i+k_i in the
   first dims_i primes, cursor_i = s + k_1 + ... + k_(i-1) *)
Fixpoint spec_outs (s : Z) (ops : list (Z * Z)) : list (list (list Q)) :=
  match ops with
  | [] => []
  | (k, dims) :: r => hpoints (firstn (Z.to_nat dims) primes40) s (Z.to_nat k) :: spec_outs (s + k) r
  end.

Lemma firstn_In' {A} (x : A) n l : In x (firstn n l) -> In x l.
Proof. intros H. rewrite <- (firstn_skipn n l). apply in_or_app. now left. Qed.

Lemma firstn_primes40_ok d : Forall (fun b => 2 <= b) (firstn d primes40).
Proof.
  apply Forall_forall. intros b Hb. apply firstn_In' in Hb.
  pose proof primes40_all_prime as H. rewrite Forall_forall in H. specialize (H b Hb). destruct H. lia.
Qed.

Theorem hrun_spec ops : forall m s, (m <= 40)%nat -> 0 <= s ->
  Forall (fun op => 0 < fst op /\ 1 <= snd op <= 40) ops ->
  exists m', (m' <= 40)%nat /\
    hrun {| h_cursor := s; h_pc := pc_after m |} ops =
    Some (spec_outs s ops, {| h_cursor := s + zsum (map fst ops); h_pc := pc_after m' |}).
Proof.
  induction ops as [|[k dims] r IH]; intros m s Hm Hs H.
  - exists m. split; auto. cbn. do 3 f_equal. lia.
  - inversion H as [|? ? [K D] Hr]; subst. cbn [fst snd] in K, D.
    destruct (IH (Nat.max m (Z.to_nat dims)) (s + k) ltac:(lia) ltac:(lia) Hr) as (m' & Hm' & E).
    exists m'. split; auto. cbn [hrun]. unfold hsample. cbn [h_pc h_cursor].
    rewrite get_n_primes_after by auto. rewrite halton_some by (auto using firstn_primes40_ok).
    rewrite E. cbn [spec_outs map fst zsum fold_right]. do 3 f_equal. fold (zsum (map fst r)). lia.
Qed.

(* constant dimension: the concatenated outputs are one batch *)
Lemma spec_outs_concat dims ks : forall s, Forall (fun k => 0 < k) ks ->
  concat (spec_outs s (map (fun k => (k, dims)) ks)) = hpoints (firstn (Z.to_nat dims) primes40) s (Z.to_nat (zsum ks)).
Proof.
  induction ks as [|k r IH]; intros s H; [reflexivity|]. inversion H; subst.
  cbn [map spec_outs concat]. rewrite IH by auto. pose proof (zsum_nonneg r ltac:(auto)).
  cbn [zsum fold_right]. fold (zsum r). rewrite Z2Nat.inj_add by lia.
  rewrite <- hpoints_concat. now rewrite Z2Nat.id by lia.
Qed.

Theorem hsampler_batches_concat dims ks s : 1 <= dims <= 40 -> 0 <= s -> Forall (fun k => 0 < k) ks ->
  exists outs st', hrun {| h_cursor := s; h_pc := pcache_init |} (map (fun k => (k, dims)) ks) = Some (outs, st') /\
    concat outs = hpoints (firstn (Z.to_nat dims) primes40) s (Z.to_nat (zsum ks)) /\
    h_cursor st' = s + zsum ks.
Proof.
  intros D Hs Hk.
  destruct (hrun_spec (map (fun k => (k, dims)) ks) 0 s ltac:(lia) Hs) as (m' & _ & E).
  { apply Forall_forall. intros op Hop. apply in_map_iff in Hop. destruct Hop as (k & <- & Hin).
    rewrite Forall_forall in Hk. cbn. split; auto. }
  change (pc_after 0) with pcache_init in E. eexists _, _. split; [exact E|]. split.
  - now apply spec_outs_concat.
  - cbn [h_cursor]. rewrite map_map. cbn [fst]. now rewrite map_id.
Qed.
