(* Lemmas about the loss specifications of Model/LossSpec.v (C07). *)
From Coq Require Import Reals ZArith QArith Qabs Qreals List Bool Lia Lra Arith.
From Interval Require Import Eval.Tree Interval.Interval Interval.Float Interval.Float_full Real.Xreal.
From BlackIt Require Import Lib.IvEval Model.LossSpec.
Import ListNotations.

(* ------------------------------------------------------------------ programs *)
Lemma run_r_app p q env : run_r (p ++ q) env = run_r q (run_r p env).
Proof. revert env; induction p as [|e p IH]; intros env; cbn; [reflexivity | apply IH]. Qed.

Lemma run_r_length p env : length (run_r p env) = (length env + length p)%nat.
Proof. revert env; induction p as [|e p IH]; intros env; cbn; [lia|]. rewrite IH, app_length; cbn; lia. Qed.

Lemma run_r_prefix p env n : (n < length env)%nat -> nth n (run_r p env) 0%R = nth n env 0%R.
Proof.
  revert env; induction p as [|e p IH]; intros env H; cbn; [reflexivity|].
  rewrite IH by (rewrite app_length; lia). now rewrite app_nth1.
Qed.

Lemma dy_expr_closed d env : Tree.eval (dy_expr d) env = Tree.eval (dy_expr d) [].
Proof. destruct d as [m e]; unfold dy_expr; destruct (0 <=? e)%Z; reflexivity. Qed.

Lemma qexpr_eval q env : Tree.eval (qexpr q) env = Q2R q.
Proof. reflexivity. Qed.

(* value of the definition on a case: entry i of the real-valued run of its program *)
Definition case_value (c : case) : R :=
  let '(i, s) := case_loss c in nth i (run_r (prog_of s) []) 0%R.
Definition dyR (d : dy) : R := Tree.eval (dy_expr d) [].

(* the check that the harness runs is sound: when it answers true on a case with a finite observed value, the
   real-valued definition is within the tolerance of that value *)
Theorem check_case_sound c v : cobs c = Some v -> check_case c = true ->
  (Rabs (case_value c - dyR v) <= Q2R (tolQ (dyQ v)))%R.
Proof.
  unfold check_case, case_value, case_prog. destruct (case_loss c) as [i s] eqn:El. intros Hv. rewrite Hv. cbn [snd].
  set (p := prog_of s). intros H. apply andb_prop in H as [Hb H]. apply andb_prop in Hb as [Hi _].
  apply Nat.ltb_lt in Hi.
  pose proof (prog_le_sound prec80 (p ++ [eabs (esub (Evar i) (dy_expr v)); qexpr (tolQ (dyQ v))])
               (length p) (S (length p))) as Hle.
  unfold prog_le in Hle. specialize (Hle H). clear H.
  rewrite run_r_app in Hle. cbn [run_r] in Hle.
  set (env := run_r p []) in *.
  assert (Hlen : length env = length p) by (unfold env; rewrite run_r_length; reflexivity).
  rewrite <- Hlen in Hle, Hi.
  set (a := Tree.eval (eabs (esub (Evar i) (dy_expr v))) env) in *.
  set (b := Tree.eval (qexpr (tolQ (dyQ v))) (env ++ [a])) in *.
  assert (Ha : nth (length env) ((env ++ [a]) ++ [b]) 0%R = a).
  { rewrite <- app_assoc. rewrite app_nth2 by lia. rewrite Nat.sub_diag. reflexivity. }
  assert (Hb : nth (S (length env)) ((env ++ [a]) ++ [b]) 0%R = b).
  { rewrite <- app_assoc. rewrite app_nth2 by lia. replace (S (length env) - length env)%nat with 1%nat by lia. reflexivity. }
  rewrite Ha, Hb in Hle. unfold a, b in Hle. rewrite qexpr_eval in Hle.
  cbn [Tree.eval eabs esub unary_real binary_real] in Hle.
  rewrite dy_expr_closed in Hle. exact Hle.
Qed.

(* ------------------------------------------------------------------ sums, weights *)
Definition Rsum (l : list R) : R := fold_right Rplus 0%R l.

Lemma esum_eval l vs : Tree.eval (esum l) vs = Rsum (map (fun e => Tree.eval e vs) l).
Proof. induction l as [|e l IH]; [reflexivity|]. cbn [esum fold_right map Rsum]. fold (esum l). cbn [Tree.eval eadd binary_real]. now rewrite IH. Qed.

Lemma Rsum_repeat x n : Rsum (repeat x n) = (INR n * x)%R.
Proof.
  induction n as [|n IH]; [cbn; lra|]. change (repeat x (S n)) with (x :: repeat x n).
  cbn [Rsum fold_right]. fold (Rsum (repeat x n)). rewrite IH, S_INR. lra.
Qed.

Lemma map_repeat' {A B} (f : A -> B) x n : map f (repeat x n) = repeat (f x) n.
Proof. induction n; cbn; [reflexivity | now rewrite IHn]. Qed.

(* base.py:104-105: the default coordinate weights 1/D sum to one *)
Theorem default_weights_sum_1 d vs : (0 < d)%nat -> Tree.eval (esum (default_weights d)) vs = 1%R.
Proof.
  intros Hd. rewrite esum_eval. unfold default_weights. rewrite map_repeat', Rsum_repeat.
  cbn [Tree.eval ediv cst binary_real nullary_real]. rewrite <- INR_IZR_INZ.
  assert (INR d <> 0)%R by (apply not_0_INR; lia). field. assumption.
Qed.

Lemma length_default_weights d : length (default_weights d) = d.
Proof. apply repeat_length. Qed.

(* base.py:70-79: compute_loss is the weighted sum of the per-coordinate losses *)
Theorem wcombine_is_weighted_sum ws ls vs :
  Tree.eval (wcombine ws ls) vs = Rsum (map2 (fun l w => (Tree.eval l vs * Tree.eval w vs)%R) ls ws).
Proof.
  unfold wcombine. rewrite esum_eval. f_equal.
  revert ws; induction ls as [|l ls IH]; intros [|w ws]; cbn; try reflexivity. now rewrite IH.
Qed.

(* a zero weight removes a coordinate; with default weights every coordinate counts 1/D *)
Lemma Rsum_nonneg l : Forall (fun x => 0 <= x)%R l -> (0 <= Rsum l)%R.
Proof. induction 1; cbn; [lra|]. fold (Rsum l). lra. Qed.

Lemma Rsum_zero_iff l : Forall (fun x => 0 <= x)%R l -> (Rsum l = 0%R <-> Forall (fun x => x = 0%R) l).
Proof.
  induction 1 as [|x l Hx Hl IH]; cbn; [split; auto|]. fold (Rsum l).
  pose proof (Rsum_nonneg l Hl). split.
  - intros H0. assert (x = 0)%R by lra. assert (Rsum l = 0)%R by lra. constructor; [assumption | now apply IH].
  - intros H0. inversion H0; subst. apply IH in H4. lra.
Qed.

(* ------------------------------------------------------------------ Minkowski *)
Lemma powabs_nonneg x p : (0 <= powerRZ (Rabs x) (Zpos p))%R.
Proof. cbn. apply pow_le, Rabs_pos. Qed.

Lemma powabs_zero x p : powerRZ (Rabs x) (Zpos p) = 0%R <-> x = 0%R.
Proof.
  cbn; split.
  - intros H. destruct (Req_dec x 0) as [|Hx]; [assumption|].
    exfalso. apply (pow_nonzero (Rabs x) (Pos.to_nat p)); [now apply Rabs_no_R0 | exact H].
  - intros ->. rewrite Rabs_R0. apply pow_i. apply Pos2Nat.is_pos.
Qed.

(* sum_t |m_t - r_t|^p = 0  iff  the two series coincide *)
Theorem mink_sum_zero_iff p ms rs vs : length ms = length rs ->
  (Tree.eval (mink_sum (Zpos p) ms rs) vs = 0%R <->
   Forall2 (fun m r => Tree.eval m vs = Tree.eval r vs) ms rs).
Proof.
  intros Hl. unfold mink_sum. rewrite esum_eval.
  rewrite Rsum_zero_iff.
  - revert rs Hl; induction ms as [|m ms IH]; intros [|r rs] Hl; cbn in *; try discriminate.
    + split; constructor.
    + split.
      * intros H; inversion H; subst. constructor.
        -- apply powabs_zero in H2. lra.
        -- apply IH; [lia | assumption].
      * intros H; inversion H; subst. constructor.
        -- apply powabs_zero. lra.
        -- apply IH; [lia | assumption].
  - clear Hl. revert rs; induction ms as [|m ms IH]; intros [|r rs]; cbn; constructor.
    + apply powabs_nonneg. + apply IH.
Qed.

Lemma mink_sum_nonneg p ms rs vs : (0 <= Tree.eval (mink_sum (Zpos p) ms rs) vs)%R.
Proof.
  unfold mink_sum. rewrite esum_eval. apply Rsum_nonneg.
  revert rs; induction ms as [|m ms IH]; intros [|r rs]; cbn; constructor; [apply powabs_nonneg | apply IH].
Qed.

(* the Minkowski distance itself (p = 1, 2, 4: no case distinction in the term) is zero iff the series coincide *)
Theorem minkowski_zero_iff p z ms rs vs : p = 1%positive \/ p = 2%positive \/ p = 4%positive -> length ms = length rs ->
  (Tree.eval (eroot (Zpos p) z (mink_sum (Zpos p) ms rs)) vs = 0%R <->
   Forall2 (fun m r => Tree.eval m vs = Tree.eval r vs) ms rs).
Proof.
  intros Hp Hl. rewrite <- (mink_sum_zero_iff p ms rs vs Hl).
  pose proof (mink_sum_nonneg p ms rs vs) as Hn.
  set (S := mink_sum (Z.pos p) ms rs) in *.
  destruct Hp as [-> | [-> | ->]]; cbn [eroot Z.eqb Pos.eqb Tree.eval esqrt unary_real].
  - reflexivity.
  - split; [now apply sqrt_eq_0 | intros ->; apply sqrt_0].
  - split.
    + intros H. apply sqrt_eq_0 in H; [|apply sqrt_pos]. now apply sqrt_eq_0.
    + intros ->. now rewrite sqrt_0, sqrt_0.
Qed.

(* method of moments with the identity matrix is a sum of squares, hence non-negative *)
Theorem sum_squares_nonneg g vs : (0 <= Tree.eval (esum (map esqr g)) vs)%R.
Proof.
  rewrite esum_eval. apply Rsum_nonneg. rewrite map_map.
  induction g; cbn; constructor; [apply Rle_0_sqr | assumption].
Qed.

(* ------------------------------------------------------------------ GSL-div: discrete parts *)
Lemma Qsum_same_den (zs : list Z) (P : positive) :
  fold_right Qplus 0%Q (map (fun z => z # P) zs) == (fold_right Z.add 0%Z zs # P).
Proof.
  induction zs as [|z zs IH]; cbn [map fold_right]; [reflexivity|].
  rewrite IH. unfold Qeq, Qplus; cbn. nia.
Qed.

Lemma sum_2l n : fold_right Z.add 0%Z (map (fun l => 2 * Z.of_nat l)%Z (seq 1 n)) = (Z.of_nat n * (Z.of_nat n + 1))%Z.
Proof.
  induction n as [|n IH]; [reflexivity|].
  rewrite seq_S, map_app, fold_right_app. cbn [map fold_right].
  assert (G : forall l a, fold_right Z.add a l = (fold_right Z.add 0 l + a)%Z).
  { induction l as [|x l IHl]; intros a; cbn; [lia|]. rewrite IHl. lia. }
  rewrite G, IH. lia.
Qed.

(* gsl_div.py:186  the additively progressive weights 2l/(L(L+1)), l = 1..L, sum to one *)
Theorem gsl_weights_sum_1 L : (0 < L)%nat ->
  fold_right Qplus 0%Q (map (gsl_weight L) (seq 1 L)) == 1%Q.
Proof.
  intros HL. unfold gsl_weight.
  rewrite <- (map_map (fun l => (2 * Z.of_nat l)%Z) (fun z => z # Pos.of_nat (L * (L + 1)))).
  rewrite Qsum_same_den, sum_2l.
  unfold Qeq; cbn. rewrite Z.mul_1_r.
  assert (Hpos : (0 < L * (L + 1))%nat) by nia.
  replace (Z.pos (Pos.of_nat (L * (L + 1)))) with (Z.of_nat (L * (L + 1))).
  - rewrite Nat2Z.inj_mul, Nat2Z.inj_add. reflexivity.
  - destruct (L * (L + 1))%nat as [|k] eqn:E; [lia|]. rewrite <- E.
    rewrite <- (Nat2Pos.id (L * (L + 1))) at 1 by lia. now rewrite positive_nat_Z.
Qed.

Lemma Qlt_b_true a b : Qlt_b a b = true <-> (a < b)%Q.
Proof.
  unfold Qlt_b. rewrite negb_true_iff. split.
  - intros H. apply Qnot_le_lt. intros C. apply Qle_bool_iff in C. congruence.
  - intros H. destruct (Qle_bool b a) eqn:E; [|reflexivity]. apply Qle_bool_iff in E. exfalso. now apply (Qlt_not_le a b).
Qed.

Lemma filter_length_le {A} (f : A -> bool) l : (length (filter f l) <= length l)%nat.
Proof. induction l as [|x l IH]; cbn; [lia|]. destruct (f x); cbn; lia. Qed.

(* gsl_div.py:214-240: with lo = min - eps < x < max + eps = hi every symbol lies in 1..b *)
Theorem symbols_in_range (b : nat) (lo hi x : Q) : (0 < b)%nat -> (lo < x)%Q -> (x < hi)%Q ->
  (1 <= sym_of (edges b lo hi) x <= Z.of_nat b)%Z.
Proof.
  intros Hb Hlo Hhi. unfold sym_of, edges.
  set (f := fun i : nat => (lo + inject_Z (Z.of_nat i) * ((hi - lo) / inject_Z (Z.of_nat b)))%Q).
  split.
  - (* the first edge is lo < x *)
    change (seq 0 (S b)) with (0%nat :: seq 1 b). cbn [map filter].
    assert (H0 : Qlt_b (f 0%nat) x = true).
    { apply Qlt_b_true. unfold f. cbn [Z.of_nat]. setoid_replace (lo + inject_Z 0 * ((hi - lo) / inject_Z (Z.of_nat b)))%Q with lo by ring. exact Hlo. }
    rewrite H0. cbn [length]. lia.
  - (* the last edge is hi > x *)
    rewrite seq_S, map_app, filter_app, app_length. cbn [map filter plus].
    assert (Hl : Qlt_b (f b) x = false).
    { destruct (Qlt_b (f b) x) eqn:E; [|reflexivity]. apply Qlt_b_true in E. exfalso.
      assert (Hfb : f b == hi).
      { unfold f. field. intros C. assert (inject_Z (Z.of_nat b) == inject_Z 0) as C' by (rewrite C; reflexivity).
        unfold Qeq in C'. cbn in C'. lia. }
      rewrite Hfb in E. apply (Qlt_irrefl x). now apply Qlt_trans with hi. }
    rewrite Hl. cbn [length]. pose proof (filter_length_le (fun e => Qlt_b e x) (map f (seq 0 b))) as Hle.
    rewrite map_length, seq_length in Hle. lia.
Qed.

(* gsl_div.py:243-268: there are T + 1 - l overlapping words of length l >= 1 *)
Theorem word_count l xs : (1 <= l)%nat -> length (words l xs) = (length xs + 1 - l)%nat.
Proof.
  intros Hl. induction xs as [|x r IH]; [cbn [words length]; lia|].
  cbn [words]. destruct (l <=? length (x :: r))%nat eqn:E.
  - apply Nat.leb_le in E. cbn [length] in *. rewrite IH. lia.
  - apply Nat.leb_gt in E. cbn [length] in *. lia.
Qed.

Lemma words_length l xs w : In w (words l xs) -> length w = l.
Proof.
  induction xs as [|x r IH]; [contradiction|]. cbn [words].
  destruct (l <=? length (x :: r))%nat eqn:E; [|contradiction]. apply Nat.leb_le in E.
  intros [<- | H]; [apply firstn_length_le; exact E | now apply IH].
Qed.

(* counts over the distinct words add up to the number of words *)
Lemma indicator_sum {A} (dec : forall a b : A, {a = b} + {a <> b}) (a : A) d : NoDup d -> In a d ->
  fold_right Nat.add 0%nat (map (fun w => if dec a w then 1 else 0)%nat d) = 1%nat.
Proof.
  induction 1 as [|x d Hx Hd IH]; [contradiction|]. intros [-> | Hin]; cbn [map fold_right].
  - destruct (dec a a) as [_|C]; [|congruence].
    assert (G : fold_right Nat.add 0%nat (map (fun w => if dec a w then 1 else 0)%nat d) = 0%nat).
    { clear IH Hd. induction d as [|y d IHd]; [reflexivity|]. cbn [map fold_right].
      destruct (dec a y) as [->|_]; [exfalso; apply Hx; now left|]. rewrite IHd; [reflexivity|]. intros C; apply Hx; now right. }
    rewrite G; reflexivity.
  - destruct (dec a x) as [->|_]; [contradiction|]. now rewrite IH.
Qed.

Lemma count_sum {A} (dec : forall a b : A, {a = b} + {a <> b}) l : forall d, NoDup d -> (forall x, In x l -> In x d) ->
  fold_right Nat.add 0%nat (map (count_occ dec l) d) = length l.
Proof.
  induction l as [|a l IH]; intros d Hd Hin.
  - cbn. induction d; [reflexivity|]. cbn. apply IHd; [now inversion Hd | intros x []].
  - assert (E : forall d', fold_right Nat.add 0%nat (map (count_occ dec (a :: l)) d') =
                 (fold_right Nat.add 0 (map (fun w => if dec a w then 1 else 0) d') + fold_right Nat.add 0 (map (count_occ dec l) d'))%nat).
    { assert (Hc : forall w, count_occ dec (a :: l) w = ((if dec a w then 1 else 0) + count_occ dec l w)%nat).
      { intros w. cbn [count_occ]. destruct (dec a w); lia. }
      induction d' as [|w d' IHd']; [reflexivity|]. cbn [map fold_right]. rewrite IHd', Hc. lia. }
    rewrite E, (indicator_sum dec a d Hd) by (apply Hin; now left).
    rewrite IH; [reflexivity | exact Hd | intros x Hx; apply Hin; now right].
Qed.

(* gsl_div.py:271-283: the estimated word probabilities sum to one *)
Theorem probs_sum_1 ws : ws <> [] -> fold_right Qplus 0%Q (probs ws) == 1%Q.
Proof.
  intros Hne. unfold probs.
  rewrite <- (map_map (fun w => Z.of_nat (wcount ws w)) (fun z => z # Pos.of_nat (length ws))).
  rewrite Qsum_same_den.
  assert (Hs : fold_right Z.add 0%Z (map (fun w => Z.of_nat (wcount ws w)) (distinct ws)) = Z.of_nat (length ws)).
  { rewrite <- (count_sum word_eq_dec ws (distinct ws)).
    - unfold wcount. induction (distinct ws) as [|w d IHd]; [reflexivity|]. cbn [map fold_right]. rewrite IHd. lia.
    - apply NoDup_nodup.
    - intros x Hx. now apply nodup_In. }
  rewrite Hs. unfold Qeq; cbn. rewrite Z.mul_1_r.
  destruct ws as [|w ws]; [congruence|]. cbn [length].
  rewrite <- (Nat2Pos.id (S (length ws))) at 1 by lia. now rewrite positive_nat_Z.
Qed.

(* ------------------------------------------------------------------ GSL-div: the base-10 packing of the code *)
Lemma pack10_snoc w s : pack10 (w ++ [s]) = (10 * pack10 w + s)%Z.
Proof. unfold pack10. now rewrite fold_left_app. Qed.

Theorem pack10_injective_small : forall w w', Forall (fun s => 0 <= s <= 9)%Z w -> Forall (fun s => 0 <= s <= 9)%Z w' ->
  length w = length w' -> pack10 w = pack10 w' -> w = w'.
Proof.
  induction w as [|s w IH] using rev_ind; intros w' Hw Hw' Hl Hp.
  - destruct w'; [reflexivity | discriminate].
  - destruct w' as [|s' w' _] using rev_ind; [rewrite app_length in Hl; cbn in Hl; lia|].
    rewrite !app_length in Hl; cbn in Hl.
    apply Forall_app in Hw as [Hw Hs]. apply Forall_app in Hw' as [Hw' Hs'].
    inversion Hs; subst. inversion Hs'; subst.
    rewrite !pack10_snoc in Hp.
    assert (pack10 w = pack10 w' /\ s = s') as [Hpw ->] by lia.
    f_equal. apply IH; auto; lia.
Qed.

(* ... and it is not injective once a symbol can exceed 9: gsl_div.py packs [1;12] and [2;2] to the same word *)
Theorem pack10_conflates_refuted : [1; 12]%Z <> [2; 2]%Z /\ pack10 [1; 12]%Z = pack10 [2; 2]%Z.
Proof. split; [discriminate | reflexivity]. Qed.

(* consequence for the word statistics: below ten symbols the code-shaped words have the same counts as the tuples *)
Lemma map_pack_count ws w : Forall (fun v => Forall (fun s => 0 <= s <= 9)%Z v /\ length v = length w) ws ->
  Forall (fun s => 0 <= s <= 9)%Z w ->
  count_occ word_eq_dec (map (fun v => [pack10 v]) ws) [pack10 w] = count_occ word_eq_dec ws w.
Proof.
  intros Hws Hw. induction Hws as [|v ws [Hv Hl] _ IH]; [reflexivity|]. cbn [map count_occ].
  destruct (word_eq_dec [pack10 v] [pack10 w]) as [E|E]; destruct (word_eq_dec v w) as [E'|E']; try (now rewrite IH).
  - exfalso. apply E'. apply pack10_injective_small; auto. now inversion E.
  - exfalso. apply E. now subst.
Qed.

(* ------------------------------------------------------------------ Fourier: reduction of the twiddle angle *)
Lemma angle_split (m n : Z) : (0 < n)%Z -> (0 <= m)%Z ->
  (2 * PI * IZR m / IZR n = 2 * PI * IZR (m mod n) / IZR n + 2 * INR (Z.to_nat (m / n)) * PI)%R.
Proof.
  intros Hn Hm. rewrite INR_IZR_INZ, Z2Nat.id by (apply Z.div_pos; lia).
  rewrite (Z.div_mod m n) at 1 by lia. rewrite plus_IZR, mult_IZR.
  assert (IZR n <> 0)%R by (apply not_0_IZR; lia). field. assumption.
Qed.

(* fourier.py:138 (np.fft.rfft): cos/sin(2 pi jk/N) only depend on jk mod N, which is what dft_coef looks up *)
Theorem twiddle_reduction (m n : Z) : (0 < n)%Z -> (0 <= m)%Z ->
  cos (2 * PI * IZR m / IZR n) = cos (2 * PI * IZR (m mod n) / IZR n) /\
  sin (2 * PI * IZR m / IZR n) = sin (2 * PI * IZR (m mod n) / IZR n).
Proof.
  intros Hn Hm. rewrite (angle_split m n Hn Hm). split; [apply cos_period | apply sin_period].
Qed.

(* ------------------------------------------------------------------ symbolize: every symbol of a series is in 1..b *)
Lemma fold_min_le l : forall a,
  (fold_left (fun a y => if Qle_bool y a then y else a) l a <= a)%Q /\
  forall y, In y l -> (fold_left (fun a y => if Qle_bool y a then y else a) l a <= y)%Q.
Proof.
  induction l as [|x l IH]; intros a; cbn [fold_left].
  - split; [apply Qle_refl | intros y []].
  - set (a' := if Qle_bool x a then x else a).
    assert (Ha : (a' <= a)%Q /\ (a' <= x)%Q).
    { unfold a'. destruct (Qle_bool x a) eqn:E.
      - apply Qle_bool_iff in E. split; [exact E | apply Qle_refl].
      - split; [apply Qle_refl|]. apply Qlt_le_weak, Qnot_le_lt. intros C. apply Qle_bool_iff in C. congruence. }
    destruct (IH a') as [H1 H2]. split.
    + apply Qle_trans with a'; tauto.
    + intros y [<- | Hy]; [apply Qle_trans with a'; tauto | now apply H2].
Qed.

Lemma fold_max_ge l : forall a,
  (a <= fold_left (fun a y => if Qle_bool a y then y else a) l a)%Q /\
  forall y, In y l -> (y <= fold_left (fun a y => if Qle_bool a y then y else a) l a)%Q.
Proof.
  induction l as [|x l IH]; intros a; cbn [fold_left].
  - split; [apply Qle_refl | intros y []].
  - set (a' := if Qle_bool a x then x else a).
    assert (Ha : (a <= a')%Q /\ (x <= a')%Q).
    { unfold a'. destruct (Qle_bool a x) eqn:E.
      - apply Qle_bool_iff in E. split; [exact E | apply Qle_refl].
      - split; [apply Qle_refl|]. apply Qlt_le_weak, Qnot_le_lt. intros C. apply Qle_bool_iff in C. congruence. }
    destruct (IH a') as [H1 H2]. split.
    + apply Qle_trans with a'; tauto.
    + intros y [<- | Hy]; [apply Qle_trans with a'; tauto | now apply H2].
Qed.

Lemma Qminl_le xs x : In x xs -> (Qminl xs <= x)%Q.
Proof.
  destruct xs as [|x0 r]; [contradiction|]. unfold Qminl. destruct (fold_min_le r x0) as [H1 H2].
  intros [<- | H]; [exact H1 | now apply H2].
Qed.
Lemma Qmaxl_ge xs x : In x xs -> (x <= Qmaxl xs)%Q.
Proof.
  destruct xs as [|x0 r]; [contradiction|]. unfold Qmaxl. destruct (fold_max_ge r x0) as [H1 H2].
  intros [<- | H]; [exact H1 | now apply H2].
Qed.

Lemma gsl_eps_pos : (0 < gsl_eps)%Q.
Proof. reflexivity. Qed.

Theorem symbolize_in_range b xs : (0 < b)%nat -> Forall (fun s => 1 <= s <= Z.of_nat b)%Z (symbolize b xs).
Proof.
  intros Hb. unfold symbolize. apply Forall_forall. intros s Hs. apply in_map_iff in Hs as [x [<- Hx]].
  apply symbols_in_range; [exact Hb | |].
  - apply Qlt_le_trans with (Qminl xs); [|now apply Qminl_le].
    apply Qlt_minus_iff. setoid_replace (Qminl xs + - (Qminl xs - gsl_eps))%Q with gsl_eps by ring. apply gsl_eps_pos.
  - apply Qle_lt_trans with (Qmaxl xs); [now apply Qmaxl_ge|].
    apply Qlt_minus_iff. setoid_replace (Qmaxl xs + gsl_eps + - Qmaxl xs)%Q with gsl_eps by ring. apply gsl_eps_pos.
Qed.
